#!/bin/sh
# Runs the repository's own test-suite (guard off) and compares with the pinned stable-pass list.
# usage: baseline.sh [logfile]
LOG=${1:-/tmp/verif_baseline.log}
mkdir -p /tmp/mut
XML=$(mktemp /tmp/verif_junit_XXXXXX.xml)
cd ${BASELINE_REPO:-/repo} && flock /tmp/mut/test.lock env -u PYSYNCOBJ_VERIF /venv/bin/python -m pytest -ra -q -p no:cacheprovider --timeout=900 --continue-on-collection-errors --junitxml=$XML > $LOG 2>&1
/venv/bin/python - "$XML" <<'PY'
import sys, json, xml.etree.ElementTree as ET
base = json.load(open('/root/.vp/BASELINE.json'))
stable = set(base['stable_pass'])
t = ET.parse(sys.argv[1]).getroot()
passed = set()
for tc in t.iter('testcase'):
    name = tc.get('classname').split('.')[-1] + '::' + tc.get('name')
    if not any(ch.tag in ('failure', 'error', 'skipped') for ch in tc):
        passed.add(name)
missing = sorted(stable - passed)
print('baseline: %d/%d stable tests pass; missing: %s' % (len(stable & passed), len(stable), missing))
sys.exit(1 if missing else 0)
PY
RC=$?
rm -f $XML
exit $RC

"""print a TLC -dumpTrace json counterexample of CoreMC compactly"""
import json, sys


def main(path):
    d = json.load(open(path))
    ce = d['counterexample']
    for a in ce['action']:
        before, info, after = a
        st = after[1]
        print(after[0], info['name'], info.get('context'))
        for n in sorted(st['node']):
            s = st['node'][n]
            if not s.get('alive', True):
                print('   ', n, 'DEAD'); continue
            print('   ', n, s['role'], 't', s['term'], 'v', s['votedFor'], 'votes', s['votes'], 'L', s['leader'], 'ci', s['commit'], 'la', s['applied'],
                  [(e['idx'], e['term'], e['cmd']) for e in s['log']], 'nx', s['nextIdx'], 'mx', s['matchIdx'], 'conn', s['conn'], 'el', s['elDue'])
        for i in st['chan']:
            for j in st['chan'][i]:
                if st['chan'][i][j]:
                    print('      ', i, '>', j, json.dumps(st['chan'][i][j])[:240])
        print('    CG', st.get('CG'), 'elected', st.get('elected'))


if __name__ == '__main__':
    main(sys.argv[1])

import sys, os, argparse, json, time


def main(argv):
    if not argv:
        print('usage: check <id> [--tier quick|thorough] | replay <file> | setup | selftest')
        return 2
    cmd = argv[0]
    if cmd == 'setup':
        from . import setup
        return setup.main()
    if cmd == 'replay':
        from . import registry
        return registry.replay(argv[1])
    if cmd == 'selftest':
        from . import selftest
        return selftest.main(argv[1:])
    ap = argparse.ArgumentParser()
    ap.add_argument('prop')
    ap.add_argument('--tier', default=os.environ.get('VERIF_TIER', 'quick'))
    a = ap.parse_args(argv)
    seed = int(os.environ.get('VERIF_SEED', '1'))
    tier = a.tier if a.tier in ('quick', 'thorough') else 'quick'
    from . import registry
    t = time.time()
    print('check %s tier=%s seed=%d' % (a.prop, tier, seed))
    rc = registry.run(a.prop, tier, seed)
    print('check %s finished rc=%d in %.0fs' % (a.prop, rc, time.time() - t))
    return rc


if __name__ == '__main__':
    sys.exit(main(sys.argv[1:]))

"""Storage under scheduler control for journaled nodes.

Every primitive storage write of the library goes through one of four interposers (installed once, at class /
module level, add-only at run time - nothing in /repo is edited):
    journal.ResizableFile.write        (journal record, journal header)
    journal.open / journal.shutil.move (.meta tmp write, .meta replace)
    serializer.open / serializer.atomicReplace (dump tmp write, dump rename; incoming snapshot tmp, rename)
Each counts as one write of the node currently stepping.  Kill(n, k): from the k-th write of the step on the
process is dead - the write and everything after it (writes, sends, callbacks) does not happen - which is what a
SIGKILL between two writes leaves behind (mmap / page-cache writes already done stay visible to a reopen)."""
import os, io, struct, builtins, shutil

import pysyncobj.journal as J
import pysyncobj.serializer as S


class State(object):
    node = None      # callable returning the SimNode currently stepping
    on_kill = None
    parent_pid = os.getpid()
    gate_dir = None  # where forked dump writers wait for the scheduler's go (and learn whether / when they are killed)
    child_writes = 0
    child_kill_at = None
    child_gated = False


def _child_gate():
    """runs in a forked dump-writer child: wait until the scheduler lets it go; it may be told to die at its k-th write"""
    import time as _t, signal
    if not State.child_gated:
        State.child_gated = True
        path = os.path.join(State.gate_dir or '/tmp', 'child_%d.go' % os.getpid())
        t0 = _t.time()
        while not os.path.exists(path):
            _t.sleep(0.002)
            if _t.time() - t0 > 120:
                os._exit(3)
        try:
            k = int(builtins.open(path).read().strip() or '0')
        except Exception:
            k = 0
        State.child_kill_at = k if k > 0 else None
    State.child_writes += 1
    if State.child_kill_at is not None and State.child_writes >= State.child_kill_at:
        os.kill(os.getpid(), signal.SIGKILL)


def _cur():
    return State.node() if State.node else None


def _write_allowed():
    if os.getpid() != State.parent_pid:
        _child_gate()
        return True
    n = _cur()
    if n is None:
        return True
    if n.dead:
        return False
    n.writes += 1
    if n.kill_at is not None and n.writes >= n.kill_at:
        n.dead = True
        if State.on_kill:
            State.on_kill(n)      # what the process had reached when it died
        return False
    return True


class _FileProxy(object):
    """file object opened for writing by a storage module.  What write() is given stays in the process (as in Python's
    own buffered files) until flush() / close(): handing it to the operating system then is ONE primitive write.  A
    process killed before that leaves nothing of it in the file - whatever was renamed in between."""

    def __init__(self, f):
        self._f = f
        self._buf = []

    def write(self, data):
        self._buf.append(bytes(data))
        return len(data)

    def _hand_over(self):
        if self._buf:
            data, self._buf = b''.join(self._buf), []
            if _write_allowed():
                self._f.write(data)

    def flush(self):
        self._hand_over()
        return self._f.flush()

    def close(self):
        self._hand_over()
        return self._f.close()

    def tell(self):
        return self._f.tell() + sum(len(b) for b in self._buf)

    def __getattr__(self, name):
        return getattr(self._f, name)

    def __enter__(self):
        return self

    def __exit__(self, *a):
        self._hand_over()
        return self._f.__exit__(*a)


def _open(path, mode='r', *a, **kw):
    f = builtins.open(path, mode, *a, **kw)
    if 'w' in mode or 'a' in mode or '+' in mode:
        return _FileProxy(f)
    return f


def _move(src, dst):
    if _write_allowed():
        return shutil.move(src, dst)


def _replace(src, dst):
    if _write_allowed():
        return os.rename(src, dst)


class _OsProxy(object):
    """the `os` module as the storage modules see it: calls that change the directory are primitive writes too"""

    def __init__(self, real):
        self._os = real

    def __getattr__(self, name):
        return getattr(self._os, name)

    def _guard(name):
        def f(self, *a, **kw):
            if _write_allowed():
                return getattr(self._os, name)(*a, **kw)
        f.__name__ = name
        return f
    remove = _guard('remove')
    unlink = _guard('unlink')
    rename = _guard('rename')
    replace = _guard('replace')
    truncate = _guard('truncate')
    ftruncate = _guard('ftruncate')


_installed = False


def install():
    global _installed
    if _installed:
        return
    _installed = True
    orig_write = J.ResizableFile.write

    def write(self, offset, values):
        if _write_allowed():
            return orig_write(self, offset, values)
    J.ResizableFile.write = write
    J.open = _open

    class _Shutil(object):
        move = staticmethod(_move)
    J.shutil = _Shutil
    S.open = _open
    S.atomicReplace = _replace
    J.os = _OsProxy(os)
    S.os = _OsProxy(os)


# ---------------------------------------------------------------------------------------------------
# read-only view of what is on disk (what a restart will find)
def read_journal(path):
    """entries visible to a reopen: records up to the header's last-record offset"""
    if not os.path.isfile(path):
        return None
    with builtins.open(path, 'rb') as f:
        data = f.read()
    if len(data) < J.FIRST_RECORD_OFFSET:
        return []
    last = struct.unpack('<I', data[J.LAST_RECORD_OFFSET_OFFSET:J.LAST_RECORD_OFFSET_OFFSET + 4])[0]
    off = J.FIRST_RECORD_OFFSET
    out = []
    while off < last:
        if off + 4 > len(data):
            out.append(None)
            break
        sz = struct.unpack('<I', data[off:off + 4])[0]
        rec = data[off + 4:off + 4 + sz]
        if len(rec) < 16 or len(rec) != sz:
            out.append(None)      # torn record inside the visible range
            break
        idx, term = struct.unpack('<QQ', rec[:16])
        out.append((rec[16:], idx, term))
        off += sz + 8
    return out


def read_meta(path):
    try:
        with builtins.open(path, 'rb') as f:
            import pysyncobj.pickle as P
            return P.loads(f.read())
    except Exception:
        return {}

"""C15: the batteries against spec/Batteries.tla.

TLC enumerates the complete state graph of the six container models over small domains (bounded and unbounded
queue configurations) and prints every transition.  Each transition becomes one test of the real battery:
the container is put into the transition's pre-state, the operation is executed (directly, `_doApply=True`),
and result and post-state are compared with the model's - and with the Python builtin the battery mimics, so
that a modelling slip (model != builtin) is told apart from a defect (battery != model).  A second part pushes
random operation sequences through a real replicated cluster with compaction and a lagging follower and
compares all replicas with each other and with the builtins executed in commit order."""
import os, sys, json, time, random, shutil, collections, heapq

from . import tlc, evidence, findings

REPO = os.environ.get('VERIF_REPO', '/repo')
if REPO not in sys.path:
    sys.path.insert(0, REPO)

NONE = 'None'


def transitions(cfgname, workdir):
    cf = os.path.join(tlc.SPEC_DIR, cfgname)
    rc, out, wall = tlc.run_tlc('Batteries.tla', cf, workdir, workers=1, timeout=300)
    st = tlc.parse_stats(out)
    ts = []
    for ln in out.split('\n'):
        ln = ln.strip()
        if ln.startswith('"{') and ln.endswith('}"'):
            try:
                ts.append(json.loads(json.loads(ln)))
            except Exception:
                pass
    st.update(cfg=cfgname, wall=wall)
    return ts, st, out


def _val(v):
    return None if v == NONE else v


class Real(object):
    """the real battery, put into an abstract state / read back as an abstract state"""

    def __init__(self, kind, qmax):
        import pysyncobj.batteries as B
        self.kind = kind
        if kind == 'counter':
            self.o = B.ReplCounter()
        elif kind == 'list':
            self.o = B.ReplList()
        elif kind == 'dict':
            self.o = B.ReplDict()
        elif kind == 'set':
            self.o = B.ReplSet()
        elif kind == 'queue':
            self.o = B.ReplQueue(qmax)
        elif kind == 'pqueue':
            self.o = B.ReplPriorityQueue(qmax)

    def load(self, st):
        k, o = self.kind, self.o
        if k == 'counter':
            o.set(st, _doApply=True)
        elif k == 'list':
            o.reset(list(st), _doApply=True)
        elif k == 'dict':
            o.reset(dict(st) if isinstance(st, dict) else {}, _doApply=True)
        elif k == 'set':
            o.reset(set(st), _doApply=True)
        elif k in ('queue', 'pqueue'):
            for v in st:
                o.put(v, _doApply=True)

    def state(self):
        k, o = self.kind, self.o
        if k == 'counter':
            return o.get()
        if k == 'list':
            return list(o.rawData())
        if k == 'dict':
            return dict(o.rawData())
        if k == 'set':
            return sorted(o.rawData())
        if k == 'queue':
            return list(getattr(o, '_ReplQueue__data'))
        if k == 'pqueue':
            return sorted(getattr(o, '_ReplPriorityQueue__data'))

    def call(self, op, args):
        k, o = self.kind, self.o
        a = list(args)
        R = dict(_doApply=True)
        if k == 'counter':
            if op == 'get':
                return o.get()
            return getattr(o, op)(*a, **R)
        if k == 'list':
            if op in ('index', 'count', 'get'):
                return getattr(o, op)(*a)
            if op == 'len':
                return len(o)
            if op == 'sort':
                return o.sort(reverse=bool(a[0]), **R)
            return getattr(o, op)(*a, **R)
        if k == 'dict':
            if op == 'get':
                return o.get(*a)
            if op == 'getitem':
                return o[a[0]]
            if op == 'contains':
                return a[0] in o
            if op == 'len':
                return len(o)
            if op == 'setitem':
                return o.__setitem__(a[0], a[1], **R)
            return getattr(o, op)(*a, **R)
        if k == 'set':
            if op == 'contains':
                return a[0] in o
            if op == 'len':
                return len(o)
            return getattr(o, op)(*a, **R)
        if k in ('queue', 'pqueue'):
            if op in ('qsize', 'empty', 'full'):
                return getattr(o, op)()
            return getattr(o, op)(*a, **R)


class Builtin(object):
    """the Python container the battery mimics (with the documented deviations)"""

    def __init__(self, kind, qmax):
        self.kind, self.qmax = kind, qmax
        self.s = {'counter': 0, 'list': [], 'dict': {}, 'set': set(), 'queue': collections.deque(), 'pqueue': []}[kind]

    def load(self, st):
        k = self.kind
        if k == 'counter':
            self.s = st
        elif k == 'list':
            self.s = list(st)
        elif k == 'dict':
            self.s = dict(st) if isinstance(st, dict) else {}
        elif k == 'set':
            self.s = set(st)
        elif k == 'queue':
            self.s = collections.deque(st)
        elif k == 'pqueue':
            self.s = list(st)
            heapq.heapify(self.s)

    def state(self):
        k = self.kind
        if k in ('counter',):
            return self.s
        if k == 'list':
            return list(self.s)
        if k == 'dict':
            return dict(self.s)
        if k == 'set':
            return sorted(self.s)
        if k == 'queue':
            return list(self.s)
        return sorted(self.s)

    def call(self, op, args):
        k, s, a = self.kind, self.s, list(args)
        if k == 'counter':
            if op == 'set':
                self.s = a[0]
            elif op == 'add':
                self.s += a[0]
            elif op == 'sub':
                self.s -= a[0]
            elif op == 'inc':
                self.s += 1
            return self.s
        if k == 'list':
            if op == 'set':
                s[a[0]] = a[1]
                return None
            if op == 'get':
                return s[a[0]]
            if op == 'len':
                return len(s)
            if op == 'sort':
                return s.sort(reverse=bool(a[0]))
            return getattr(s, op)(*a)
        if k == 'dict':
            if op in ('set', 'setitem'):
                s[a[0]] = a[1]
                return None
            if op == 'pop':
                return s.pop(a[0], a[1] if len(a) > 1 else None)       # documented: default instead of KeyError
            if op == 'getitem':
                return s[a[0]]
            if op == 'contains':
                return a[0] in s
            if op == 'len':
                return len(s)
            return getattr(s, op)(*a)
        if k == 'set':
            if op == 'contains':
                return a[0] in s
            if op == 'len':
                return len(s)
            return getattr(s, op)(*a)
        if k == 'queue':
            full = self.qmax > 0 and len(s) >= self.qmax
            if op == 'put':
                if full:
                    return False
                s.append(a[0])
                return True
            if op == 'get':
                return s.popleft() if s else (a[0] if a else None)
            if op == 'qsize':
                return len(s)
            if op == 'empty':
                return not s
            if op == 'full':
                return full
        if k == 'pqueue':
            full = self.qmax > 0 and len(s) >= self.qmax
            if op == 'put':
                if full:
                    return False
                heapq.heappush(s, a[0])
                return True
            if op == 'get':
                return heapq.heappop(s) if s else (a[0] if a else None)
            if op == 'qsize':
                return len(s)
            if op == 'empty':
                return not s
            if op == 'full':
                return full


def _outcome(fn):
    try:
        return {'ok': fn()}
    except Exception as e:
        return {'err': type(e).__name__}


def _norm_state(kind, st):
    if kind == 'dict':
        return dict(st) if isinstance(st, dict) else {}
    if kind == 'set':
        return sorted(st)
    if kind == 'pqueue':
        return sorted(st)
    if kind == 'counter':
        return st
    return list(st)


def _norm_res(r):
    if 'ok' in r:
        v = r['ok']
        return {'ok': None if v == NONE else v}
    return {'err': r['err']}


def check_transition(t, qmax):
    """returns (verdict, detail): 'ok' | 'defect' (battery != model) | 'model' (model != builtin)"""
    kind = t['kind']
    pre, post = _norm_state(kind, t['pre']), _norm_state(kind, t['post'])
    want = _norm_res(t['res'])
    real, ref = Real(kind, qmax), Builtin(kind, qmax)
    real.load(pre)
    ref.load(pre)
    got = _outcome(lambda: real.call(t['op'], t['args']))
    exp = _outcome(lambda: ref.call(t['op'], t['args']))
    rs, bs = real.state(), ref.state()
    nondet = (kind == 'set' and t['op'] == 'pop' and 'ok' in want)
    if nondet:
        # any element may be popped: accept the builtin's own choice, compare the battery against the relation
        model_ok = True
        real_ok = ('ok' in got and got['ok'] in pre and rs == sorted(set(pre) - {got['ok']}))
    else:
        model_ok = (exp == want and bs == post)
        real_ok = (got == want and rs == post)
    if not model_ok:
        return 'model', dict(t=t, builtin=exp, builtin_state=bs)
    if not real_ok:
        return 'defect', dict(kind=kind, pre=pre, op=t['op'], args=t['args'], model=want, model_post=post, battery=got, battery_post=rs, qmax=qmax)
    return 'ok', None


def walks(ts, qmax, nwalks, depth, seed):
    """paths through the model's state graph executed on ONE live object each (no reloading between steps): the internal
    layout of a container (the heap array of the priority queue) depends on the path, not only on the abstract state"""
    rng = random.Random(seed)
    by = {}
    for t in ts:
        by.setdefault((t['kind'], json.dumps(_norm_state(t['kind'], t['pre']), sort_keys=True)), []).append(t)
    bad, nsteps = [], 0
    kinds = sorted({t['kind'] for t in ts})
    for w in range(nwalks):
        kind = kinds[w % len(kinds)]
        real = Real(kind, qmax)
        cur = _norm_state(kind, [] if kind != 'counter' else 0)
        path = []
        for _ in range(depth):
            opts = by.get((kind, json.dumps(cur, sort_keys=True)))
            if not opts:
                break
            puts = [t for t in opts if t['op'] == 'put']
            t = rng.choice(puts) if puts and rng.random() < 0.45 else rng.choice(opts)
            if kind == 'set' and t['op'] == 'pop':
                continue
            want, post = _norm_res(t['res']), _norm_state(kind, t['post'])
            got = _outcome(lambda: real.call(t['op'], t['args']))
            rs = real.state()
            nsteps += 1
            path.append([t['op'], t['args']])
            if got != want or rs != post:
                bad.append(dict(kind=kind, walk=path, model=want, model_post=post, battery=got, battery_post=rs, qmax=qmax))
                break
            cur = post
    return bad, nsteps


def replicated_run(seed, steps=500, ordered=None):
    """random battery operations through a real 3-node cluster with compaction and a lagging follower; all replicas
    must end up equal to each other and to the builtins fed in commit order"""
    from . import simcluster as sc, sched
    import pysyncobj.batteries as B
    if ordered is None:
        ordered = (seed % 2 == 1)
    rng = random.Random(seed)

    def mk():
        return [B.ReplCounter(), B.ReplList(), B.ReplDict(), B.ReplSet(), B.ReplQueue(3), B.ReplPriorityQueue(3)]
    cl = sc.Cluster({'voters': ['a', 'b', 'c'], 'init_connected': True, 'snap_chunk': 200, 'consumers': mk})
    try:
        def pump(n):
            for _ in range(n):
                live = [x for x in cl.nodes if cl.nodes[x].alive]
                for x in live:
                    cl.step(('Tick', x, 'h'))
                for (i, j), q in list(cl.net.chan.items()):
                    while cl.applicable(('Deliver', i, j)):
                        cl.step(('Deliver', i, j))
        cl.step(('Tick', 'a', 'j'))
        pump(4)
        ops = []
        gens = [
            lambda: (0, rng.choice(['set', 'add', 'sub', 'inc']), lambda op: [] if op == 'inc' else [rng.randint(-3, 3)]),
            lambda: (1, rng.choice(['append', 'insert', 'remove', 'pop', 'sort', 'set']), None),
            lambda: (2, rng.choice(['set', 'setdefault', 'pop', 'clear']), None),
            lambda: (3, rng.choice(['add', 'discard', 'remove', 'clear']), None),
            lambda: (4, rng.choice(['put', 'get']), None),
            lambda: (5, rng.choice(['put', 'get']), None),
        ]
        for k in range(steps):
            r = rng.random()
            if r < 0.5:
                ci, op, _ = rng.choice(gens)()
                v = rng.randint(1, 3)
                if ci == 0:
                    args = [] if op == 'inc' else [rng.randint(-3, 3)]
                elif ci == 1:
                    args = {'append': [v], 'insert': [rng.randint(-4, 4), v], 'remove': [v], 'pop': rng.choice([[], [rng.randint(-4, 4)]]),
                            'sort': [], 'set': [rng.randint(-4, 4), v]}[op]
                elif ci == 2:
                    args = {'set': ['k%d' % v, rng.randint(1, 3)], 'setdefault': ['k%d' % v, 7], 'pop': ['k%d' % v], 'clear': []}[op]
                elif ci == 3:
                    args = {'add': [v], 'discard': [v], 'remove': [v], 'clear': []}[op]
                else:
                    args = {'put': [v], 'get': []}[op]
                n = rng.choice(['a', 'b', 'c']) if not ordered else 'a'
                kw = {}
                # the same calls with their arguments passed by keyword (they travel through the command encoding)
                if rng.random() < 0.35:
                    if (ci, op) == (1, 'sort'):
                        kw = {'reverse': rng.random() < 0.5}
                    elif ci in (4, 5) and op == 'get':
                        kw = {'default': 9}
                    elif (ci, op) == (2, 'pop'):
                        kw = {'default': 0}
                if cl.nodes[n].alive:
                    cons = getattr(cl.nodes[n].obj, '_SyncObj__consumers')[ci]
                    sc._Ctx.node = cl.nodes[n]
                    outcome = []
                    try:
                        getattr(cons, op)(*args, callback=(lambda res, err, o_=outcome: o_.append(err)), **kw)
                    finally:
                        sc._Ctx.node = None
                    ops.append((ci, op, args, kw, outcome))
            elif r < 0.9:
                pump(1)
            elif r < 0.95:
                cl.step(('Compact', rng.choice(['a', 'b', 'c'])))
            elif r < 0.975:
                v = rng.choice(['b', 'c'])
                for m in ['a', 'b', 'c']:
                    if m != v:
                        for act in (('Break', v, m), ('Notice', v, m), ('Notice', m, v)):
                            if cl.applicable(act):
                                cl.step(act)
            else:
                for i in 'abc':
                    for j in 'abc':
                        for act in (('Connect', i, j),):
                            if i != j and cl.applicable(act):
                                cl.step(act)
        for i in 'abc':
            for j in 'abc':
                if i != j and cl.applicable(('Connect', i, j)):
                    cl.step(('Connect', i, j))
        pump(30)
        states = {}
        for n in 'abc':
            cons = getattr(cl.nodes[n].obj, '_SyncObj__consumers')
            states[n] = [cons[0].get(), list(cons[1].rawData()), dict(cons[2].rawData()), sorted(cons[3].rawData()),
                         list(getattr(cons[4], '_ReplQueue__data')), sorted(getattr(cons[5], '_ReplPriorityQueue__data'))]
        equal = states['a'] == states['b'] == states['c']
        if ordered and equal and not cl.rec.exc:
            # one submitter: the commit order is the submission order; the builtins fed with the same calls must agree
            kinds = ['counter', 'list', 'dict', 'set', 'queue', 'pqueue']
            refs = [Builtin(k, 3) for k in kinds]
            conclusive = all(len(o_) == 1 and o_[0] in (0, 1, 2, 4, 6) for (_, _, _, _, o_) in ops)
            for (ci, op, args, kw, o_) in ops:
                if o_ != [0]:
                    continue        # refused (queue full, no leader, ...): never applied
                try:
                    extra_ = [kw.get('reverse', False)] if (ci, op) == (1, 'sort') else ([kw['default']] if 'default' in kw else [])
                    refs[ci].call(op, list(args) + extra_)
                except Exception:
                    pass
            want = [refs[0].state(), refs[1].state(), refs[2].state(), refs[3].state(), refs[4].state(), refs[5].state()]
            got = states['a']
            norm = lambda x: sorted(x) if isinstance(x, (set, list)) and x and not isinstance(x, dict) and False else x
            if conclusive and [want[0], list(want[1]), dict(want[2]), sorted(want[3]), list(want[4]), sorted(want[5])] != got:
                equal = False
                states['builtins'] = [want[0], list(want[1]), dict(want[2]), sorted(want[3]), list(want[4]), sorted(want[5])]
        applied = [cl.nodes[n].obj.raftLastApplied for n in 'abc']
        return {'equal': equal, 'states': states, 'nops': len(ops), 'applied': applied, 'nexc': len(cl.rec.exc)}
    finally:
        cl.close()


def run(prop, tier, seed, out=print):
    t0 = time.time()
    ev = evidence.Evidence(prop, tier, seed, 'model_checking')
    workdir = tlc.scratch('verif_C15_')
    machinery, viols = [], []
    try:
        total, ok = 0, 0
        stats = []
        samples = []
        for cfgname, qmax in (('batteries_q2.cfg', 2), ('batteries_q0.cfg', 0)):
            ts, st, o = transitions(cfgname, workdir)
            stats.append(st)
            out('  [spec] %s: %d distinct states, %d transitions (complete state graph: %s)' % (cfgname, st['distinct'], len(ts), st['completed']))
            if not st['completed'] or not ts:
                machinery.append('Batteries.tla / %s: %s' % (cfgname, o[-500:]))
                continue
            for t in ts:
                if qmax == 0 and t['kind'] not in ('queue', 'pqueue'):
                    continue        # identical to the other configuration
                total += 1
                verdict, detail = check_transition(t, qmax)
                if verdict == 'ok':
                    ok += 1
                elif verdict == 'model':
                    machinery.append('model and builtin disagree: %s' % json.dumps(detail)[:400])
                else:
                    viols.append(detail)
            samples += ts[:2]
        out('  [spec->code] %d model transitions executed on the real batteries: %d agree, %d differ' % (total, ok, len(viols)))
        # paths (the queues on a larger domain): one live object per path
        ts, st, o = transitions('batteries_pq.cfg', workdir)
        stats.append(st)
        if not st['completed'] or not ts:
            machinery.append('Batteries.tla / batteries_pq.cfg: %s' % o[-500:])
        else:
            wbad, wsteps = walks(ts, 0, 600 if tier == 'quick' else 20000, 24, seed)
            out('  [spec->code] batteries_pq.cfg: %d distinct states; %d steps along random paths of the state graph on live queues: %d paths differ'
                % (st['distinct'], wsteps, len(wbad)))
            total += wsteps
            viols += wbad[:5]
        nrep = 24 if tier == "quick" else 200
        bad_rep = []
        for k in range(nrep):
            r = replicated_run(seed * 1000 + k, 400 if tier == 'quick' else 800)
            if not r['equal'] or r['nexc']:
                bad_rep.append((seed * 1000 + k, r))
        out('  [cluster] %d replicated runs with compaction / lagging follower: %d with unequal replicas or escaped exceptions' % (nrep, len(bad_rep)))
        for sd, r in bad_rep:
            viols.append(dict(kind='replicas', seed=sd, equal=r['equal'], nexc=r['nexc'], states=r['states']))
        ev.mc = stats
        ev.traces, ev.steps = total + nrep, total
        ev.distinct_actions = total
        ev.sample_traces = [('transition', [json.dumps(s)]) for s in samples[:3]]
        ev.extra = {'exhaustive': all(s['completed'] for s in stats), 'replicated_runs': nrep}
        return finish(prop, ev, viols, machinery, t0, out)
    finally:
        shutil.rmtree(workdir, ignore_errors=True)


def signature(v):
    if v.get('kind') == 'replicas':
        return 'replicas'
    if 'walk' in v:
        return '%s.path' % v['kind']
    return '%s.%s%s' % (v['kind'], v['op'], '()' if not v['args'] else '(..)')


def finish(prop, ev, viols, machinery, t0, out):
    kf = findings.load()
    known, reported = {}, []
    seen = set()
    for v in viols:
        sig = signature(v)
        k = next((x for x in kf if x.get('status') == 'known' and x.get('property') == prop and x.get('signature', {}).get('case') == sig), None)
        if k is not None:
            known[k['id']] = k
            continue
        if sig in seen:
            continue
        seen.add(sig)
        d = os.environ.get('VERIF_REPLAY_DIR') or os.path.join(tlc.ROOT, 'replays')
        os.makedirs(d, exist_ok=True)
        import hashlib
        body = {'engine': 'batteries', 'property': prop, 'case': v}
        path = os.path.join(d, '%s-%s.json' % (prop, hashlib.sha1(json.dumps(body, sort_keys=True, default=str).encode()).hexdigest()[:10]))
        json.dump(body, open(path, 'w'), default=str)
        reported.append((v, path, sig))
    for k in known.values():
        out('KNOWN-FINDING: property=%s %s' % (prop, k['what']))
    ev.known, ev.violations, ev.machinery, ev.wall = sorted(known), len(reported), machinery, time.time() - t0
    ev.write()
    for v, path, sig in reported[:5]:
        out('VIOLATION property=%s replay=%s' % (prop, path))
        out('  %s: %s' % (sig, json.dumps(v, default=str)[:300]))
    if reported:
        return 1
    if machinery:
        for m in machinery[:5]:
            out('MACHINERY-FAILURE: ' + m)
        return 2
    return 0


def replay(path, out=print):
    body = json.load(open(path))
    v = body['case']
    if v.get('kind') == 'replicas':
        r = replicated_run(v['seed'])
        bad = (not r['equal']) or r['nexc']
    elif 'walk' in v:
        # the recorded path on a live object against the builtin the battery mimics
        real, ref = Real(v['kind'], v.get('qmax', 0)), Builtin(v['kind'], v.get('qmax', 0))
        bad = False
        for op, args in v['walk']:
            got = _outcome(lambda: real.call(op, args))
            exp = _outcome(lambda: ref.call(op, args))
            if got != exp or real.state() != ref.state():
                bad = True
                out('  %s%s: battery %s / %s, builtin %s / %s' % (op, args, got, real.state(), exp, ref.state()))
                break
    else:
        t = {'kind': v['kind'], 'pre': v['pre'], 'op': v['op'], 'args': v['args'], 'res': {'ok': NONE if v['model'].get('ok', 0) is None else v['model'].get('ok')} if 'ok' in v['model'] else {'err': v['model']['err']}, 'post': v['model_post']}
        verdict, detail = check_transition(t, v.get('qmax', 2))
        bad = verdict == 'defect'
        out('  %s' % json.dumps(detail, default=str)[:300])
    if bad:
        out('VIOLATION property=%s replay=%s' % (body['property'], path))
        return 1
    out('no violation on this case')
    return 0

"""C11: arguments of any size and shape (spec/Chunking.tla).

  1. TLC explores Chunking.tla exhaustively: every (command length, pickle overhead, batch size) in a small range for the
     labelling of pieces and the receiver automaton, every short size sequence for the batch rule.
  2. Real sweep: a 2-voter real cluster per case (batch size from 1 byte to 64 KiB, command sizes k*B +- 64 and random,
     memory and file journal, batched and unbatched append mode, argument shapes from none to nested / bytes / keywords);
     the pieces the leader really puts on the wire and what the follower makes of them are recorded.
  3. TLC validates every recorded case against ChunkTrace.tla."""
import os, sys, json, time, random, shutil, hashlib, concurrent.futures

from . import tlc, evidence, findings


def run_multi(seed):
    """large entries under leader changes: random + directed (re-election) schedules on three nodes whose commands are all
    larger than one message; what goes out in pieces must be the sender's current log entry, and all replicas must end up
    with equal states"""
    from . import sched, engine_core
    cfg = {'voters': ['a', 'b', 'c'] if seed % 2 else ['a', 'b', 'c', 'd', 'e'], 'batch': 60}
    w = dict(engine_core.W_BASE)
    w.update({'submit': 6, 'brk': 0.4})
    extra = {'maxcmd': 30, 'sizes': [150, 200, 260], 'phases': engine_core.REELECT['phases'] + [[0, {}, [['quiet', 24, 2]]]]}
    tr = sched.run_random(cfg, seed, 0, weights=w, maxcmd=30, extra=extra)
    bad = [o for st in tr[1:] for o in st.get('obs', []) if o.get('k') == 'pieces' and not o.get('ok')]
    npieces = sum(1 for st in tr[1:] for o in st.get('obs', []) if o.get('k') == 'pieces')
    nexc = sum(1 for st in tr[1:] for o in st.get('obs', []) if o.get('k') == 'exc')
    # final states (after the quiet period): equal applied prefixes
    last = {}
    for st in tr:
        for n, s_ in (st.get('upd') or {}).items():
            last[n] = s_
    if 'full' in tr[0]:
        for n, s_ in tr[0]['full']['nodes'].items():
            last.setdefault(n, s_)
    hists = {n: [tuple(h[:2]) for h in s_.get('hist', [])] for n, s_ in last.items() if s_.get('alive')}
    m = min(len(h) for h in hists.values()) if hists else 0
    equal = len({tuple(h[:m]) for h in hists.values()}) <= 1
    return {'seed': seed, 'multi': True, 'bad_pieces': bad[:3], 'npieces': npieces, 'nexc': nexc, 'equal': equal,
            'lens': {n: len(h) for n, h in hists.items()}}


def _job_multi(seed):
    try:
        return run_multi(seed)
    except Exception as e:
        import traceback
        return {'error': traceback.format_exc()[-500:], 'seed': seed}


def run_case(B, target, journal, use_batch, shape, workdir=None, interrupt=0):
    from . import simcluster as sc
    import pysyncobj.pickle as P
    cfg = {'voters': ['a', 'b'], 'init_connected': True, 'batch': B, 'use_batch': use_batch}
    if journal:
        cfg['journal'] = True
    cl = sc.Cluster(cfg)
    try:
        def drain(rounds=60):
            for _ in range(rounds):
                moved = False
                for (i, j) in [('a', 'b'), ('b', 'a')]:
                    while cl.applicable(('Deliver', i, j)):
                        cl.step(('Deliver', i, j))
                        moved = True
                if not moved:
                    break
        cl.step(('Tick', 'a', 'j'))
        drain()
        cl.step(('Tick', 'a', 'h', 1000))
        drain()
        if shape is None:
            spec = {'kind': 'op', 'size': target} if target >= 24 else {'kind': 'op'}
        else:
            spec = {'kind': 'opx', 'args': shape[0], 'kwargs': shape[1]}
        cl.step(('Submit', 'a', 'c1', spec))
        cl.step(('Tick', 'a', 'h', 100000))       # appends (batched mode: sends on the next heartbeat)
        labels, lens = [], []

        def scan():
            for it in cl.net.chan.get(('a', 'b'), []):
                m = cl.abs_msg(it)
                if m['t'] == 'aet':
                    labels.append(m['kind'])
                    lens.append(m['len'])
        scan()
        if not labels:
            cl.step(('Tick', 'a', 'h', 100000))
            scan()
        if interrupt and len(labels) > interrupt:
            # the connection is lost after `interrupt` pieces have arrived; the entry is sent again from its first piece
            for _ in range(interrupt):
                if cl.applicable(('Deliver', 'a', 'b')):
                    cl.step(('Deliver', 'a', 'b'))
            for act in (('Break', 'a', 'b'), ('Notice', 'a', 'b'), ('Notice', 'b', 'a'), ('Connect', 'b', 'a'), ('Connect', 'a', 'b')):
                if cl.applicable(act):
                    cl.step(act)
        drain()
        for _ in range(4):
            cl.step(('Tick', 'a', 'h', 100000))
            drain()
            cl.step(('Tick', 'b', 'h'))
            drain()
        la = getattr(cl.nodes['a'].obj, '_SyncObj__raftLog')
        lb = getattr(cl.nodes['b'].obj, '_SyncObj__raftLog')
        ea = [e for e in la[:] if e[1] == 3]
        eb = [e for e in lb[:] if e[1] == 3]
        c = len(ea[0][0]) if ea else -1
        p = len(P.dumps(ea[0])) if ea else -1
        ha, hb = getattr(cl.nodes['a'].obj, 'hist'), getattr(cl.nodes['b'].obj, 'hist')
        delivered = bool(ea and eb and tuple(ea[0]) == tuple(eb[0]))
        once = (len(ha) == 1 and ha == hb)
        return {'c': c, 'p': p, 'b': B, 'labels': labels, 'lens': lens, 'delivered': delivered, 'once': once,
                'nexc': len(cl.rec.exc), 'journal': journal, 'use_batch': use_batch, 'shape': repr(shape)[:60]}
    finally:
        cl.close()


SHAPES = [([], {}), ([1, 2, 3], {}), ([], {'x': 1, 'y': 'z'}), ([[1, [2, {'a': (3, 4)}]], 'text'], {'k': [1, 2]}),
          ([b'\x00\xff' * 40], {}), (['é中' * 30], {'u': b'\x80'}), ([list(range(200))], {}), ([b'x' * 3000], {'pad': 'y' * 500})]


def gen_cases(tier, seed):
    rng = random.Random(seed)
    cases = []
    Bs = [1, 7, 64, 100, 1000] if tier == 'quick' else [1, 2, 3, 7, 31, 64, 100, 333, 1000, 4096, 65536]
    for B in Bs:
        ks = (1, 2, 3, 4)
        deltas = list(range(-64, 65, 8 if tier == 'quick' else 1))
        targets = set()
        for k in ks:
            for d in deltas:
                t = k * B + d
                if 24 <= t <= 300000:
                    targets.add(t)
        if B <= 7:
            targets = {t for t in targets if t <= 120}
        for t in sorted(targets):
            cases.append((B, t, False, True, None))
    for _ in range(30 if tier == 'quick' else 600):
        B = rng.choice([1, 5, 64, 100, 1000, 4096, 65536])
        t = rng.randint(24, 4 * B + 200) if B <= 4096 else rng.randint(24, 200000)
        if B <= 7:
            t = min(t, 150)
        cases.append((B, t, rng.random() < 0.4, rng.random() < 0.6, None))
    # file journal: records about as large as the (young) journal file, which has to grow by more than one doubling
    step = 8 if tier == 'quick' else 2
    for lo, hi in ((1900, 2100), (3950, 4110), (8050, 8200)):
        for t in range(lo, hi, step):
            cases.append((65536, t, True, True, None))
            if tier != 'quick' or t % 16 == 0:
                cases.append((1000, t, True, False, None))
    # transfers interrupted after 1, 2, ... pieces (connection lost, entry sent again from the start)
    for B in (7, 64, 100):
        for t in (2 * B + 5, 3 * B, 5 * B + 1):
            for k in (1, 2, 3):
                cases.append((B, max(24, t), False, True, None, None, k))
                cases.append((B, max(24, t), True, False, None, None, k))
    for sh in SHAPES:
        for B in (50, 65536):
            cases.append((B, 0, False, True, sh))
            cases.append((B, 0, True, False, sh))
    return cases


def _job(args):
    try:
        return run_case(*args)
    except Exception as e:
        return {'error': repr(e), 'args': repr(args)}


def validate(cases, workdir, label):
    tf = os.path.join(workdir, label + '.json')
    with open(tf, 'w') as f:
        json.dump({'cases': cases}, f, separators=(',', ':'))
    cf = os.path.join(workdir, label + '.cfg')
    with open(cf, 'w') as f:
        f.write('SPECIFICATION TSpec\nCONSTANTS\n  MaxC = 1\n  MaxO = 1\n  MaxB = 1\nINVARIANT Verdict\nCHECK_DEADLOCK FALSE\n')
    rc, o, wall = tlc.run_tlc('ChunkTrace.tla', cf, workdir, env={'TRACE_FILE': tf}, workers=1, timeout=900)
    v = tlc.parse_tuples(o)
    st = tlc.parse_stats(o)
    if os.environ.get('VERIF_DEBUG') and (not st['completed'] or len(v['DONE']) != len(cases)):
        open('/tmp/verif_c11_fail_%s.txt' % label, 'w').write(o)
    return {'ok': st['completed'], 'out': '' if st['completed'] else o, 'done': len(v['DONE']), 'n': len(cases),
            'viol': [tlc.parse_verdict_line(b) for b in v['VIOL']], 'drift': [tlc.parse_verdict_line(b) for b in v['DRIFT']]}


def run(prop, tier, seed, out=print):
    import multiprocessing
    t0 = time.time()
    ev = evidence.Evidence(prop, tier, seed, 'model_checking')
    workdir = tlc.scratch('verif_C11_')
    machinery, viols, drift = [], [], []
    try:
        rc, o, wall = tlc.run_tlc('Chunking.tla', os.path.join(tlc.SPEC_DIR, 'chunking.cfg'), workdir, workers=8, timeout=600, heap='4g')
        st = tlc.parse_stats(o)
        st.update(cfg='chunking.cfg', wall=wall)
        out('  [spec] Chunking.tla: %d parameter points, %s (%.0fs)' % (st['distinct'], 'all formulas hold' if st['completed'] else 'COUNTEREXAMPLE', wall))
        if not st['completed']:
            machinery.append('Chunking.tla: ' + (st.get('error') or o[-400:]))
        cases = gen_cases(tier, seed)
        os.environ.setdefault('VERIF_TMP', workdir)
        with multiprocessing.Pool(max(1, tlc.NCPU - 2)) as pool:
            res = pool.map(_job, cases, chunksize=4)
        errs = [r for r in res if 'error' in r]
        for r in errs[:3]:
            machinery.append('case failed in the harness: %s %s' % (r['error'], r['args']))
        # large entries under leader changes (sender-side observation + equal replicas)
        nmulti = 24 if tier == 'quick' else 400
        with multiprocessing.Pool(max(1, tlc.NCPU - 2)) as pool:
            mres = pool.map(_job_multi, [seed * 104729 + k for k in range(nmulti)], chunksize=2)
        for r in [r for r in mres if 'error' in r][:3]:
            machinery.append('large-entry run failed in the harness (seed %s): %s' % (r['seed'], r['error']))
        mgood = [r for r in mres if 'error' not in r]
        for r in mgood:
            names = []
            if r['bad_pieces']:
                names.append('C11.PiecesAreTheEntry')
            if not r['equal']:
                names.append('C11.ExactlyOnceEqualArgs')
            if r['nexc']:
                names.append('C11.NoEscape')
            if names:
                viols.append(dict(names=names, case=['multi', r['seed']], rec=r))
        out('  [code] %d runs with large entries under leader changes: %d entries sent in pieces observed at the wire, %d runs with a wrong piece stream / unequal replicas / escaped exception'
            % (len(mgood), sum(r['npieces'] for r in mgood), sum(1 for v in viols if v['case'][0] == 'multi')))
        good = [(i, r) for i, r in enumerate(res) if 'error' not in r]
        per = max(1, (len(good) + 7) // 8)
        with concurrent.futures.ThreadPoolExecutor(max_workers=8) as ex:
            futs = {}
            for b in range(0, len(good), per):
                chunk = good[b:b + per]
                futs[ex.submit(validate, [r for (_, r) in chunk], workdir, 'cb%d' % b)] = chunk
            for fu in concurrent.futures.as_completed(futs):
                chunk = futs[fu]
                r = fu.result()
                if not r['ok'] or r['done'] != r['n']:
                    machinery.append('chunk trace validator failed: ' + r['out'][-500:])
                    continue
                for v in r['viol']:
                    i, rec = chunk[v['tid'] - 1]
                    viols.append(dict(names=v['names'], case=list(cases[i]), rec=rec))
                for d in r['drift']:
                    i, rec = chunk[d['tid'] - 1]
                    drift.append(dict(source='case%d' % i, step=1, action='chunks', fields=d.get('names')))
        nchunked = sum(1 for (_, r) in good if r['labels'])
        out('  [code->spec] %d real transfers (%d of them in pieces) validated by TLC; drift: %d; formula failures: %d'
            % (len(good), nchunked, len(drift), len(viols)))
        ev.mc, ev.traces, ev.steps, ev.drift = [st], len(good), sum(max(1, len(r['labels'])) for (_, r) in good), drift
        ev.distinct_actions = len({(r['c'], r['b'], r['journal'], r['use_batch']) for (_, r) in good})
        ev.sample_traces = [('case', [json.dumps(r)[:300]]) for (_, r) in good[:2]]
        kf = findings.load()
        reported, known, seen = [], {}, set()
        for v in viols:
            k = findings.match(kf, prop, v)
            if k is not None:
                known[k['id']] = k
                continue
            key = tuple(sorted(v['names']))
            if key in seen:
                continue
            seen.add(key)
            d = os.environ.get('VERIF_REPLAY_DIR') or os.path.join(tlc.ROOT, 'replays')
            os.makedirs(d, exist_ok=True)
            body = {'engine': 'chunking', 'property': prop, 'formulas': v['names'], 'case': v['case']}
            path = os.path.join(d, '%s-%s.json' % (prop, hashlib.sha1(json.dumps(body, sort_keys=True, default=str).encode()).hexdigest()[:10]))
            json.dump(body, open(path, 'w'), default=str)
            reported.append((v, path))
        for d in drift[:6]:
            out('MODEL-DRIFT property=%s step=%s fields=%s source=%s' % (prop, d.get('action'), d.get('fields'), d.get('source')))
        for k in known.values():
            out('KNOWN-FINDING: property=%s %s' % (prop, k['what']))
        ev.known, ev.violations, ev.machinery, ev.wall = sorted(known), len(reported), machinery, time.time() - t0
        ev.write()
        for v, path in reported[:4]:
            out('VIOLATION property=%s replay=%s' % (prop, path))
            if v['rec'].get('multi'):
                out('  formula(s) %s in a run with large entries under leader changes (seed %s): %s' % (v['names'], v['rec']['seed'], json.dumps({k: v['rec'][k] for k in ('bad_pieces', 'equal', 'nexc', 'lens')})[:300]))
            else:
                out('  formula(s) %s: batch %s, command %s bytes (pickled %s), labels %s' % (v['names'], v['rec']['b'], v['rec']['c'], v['rec']['p'], v['rec']['labels'][:6]))
        if reported:
            return 1
        if machinery:
            for m in machinery[:4]:
                out('MACHINERY-FAILURE: ' + m)
            return 2
        return 0
    finally:
        shutil.rmtree(workdir, ignore_errors=True)


def replay(path, out=print):
    body = json.load(open(path))
    c = body['case']
    if c and c[0] == 'multi':
        r = run_multi(c[1])
        out('  %s' % json.dumps({k: r[k] for k in ('bad_pieces', 'equal', 'nexc', 'lens')})[:300])
        if r['bad_pieces'] or not r['equal'] or r['nexc']:
            out('VIOLATION property=%s replay=%s' % (body['property'], path))
            return 1
        out('no formula of %s fails on this run' % body['property'])
        return 0
    shape = c[4]
    if shape is not None:
        shape = (shape[0], shape[1])
    rec = run_case(c[0], c[1], c[2], c[3], shape, None, c[6] if len(c) > 6 else 0)
    wd = tlc.scratch('verif_replayc_')
    try:
        r = validate([rec], wd, 'replay')
        hit = [x for x in r['viol'] if set(x.get('names', [])) & set(body['formulas'])]
        out('  %s' % json.dumps(rec)[:300])
        if hit:
            out('VIOLATION property=%s replay=%s' % (body['property'], path))
            return 1
        out('no formula of %s fails on this case' % body['property'])
        return 0
    finally:
        shutil.rmtree(wd, ignore_errors=True)

"""C20: leader fallback and hasQuorum with real time values (spec/Fallback.tla).

  1. TLC explores Fallback.tla exhaustively (1, 2, 4 other voters; integer clock; every pattern of replies, cuts and
     clock advances below / at / above the heartbeat period and the fallback timeout).
  2. Real clusters of 2-5 voters: a leader is elected, then its clock is advanced by chosen amounts between ticks while
     replies of chosen followers are delivered or withheld (partitions); after every step the leader's role,
     lastResponseTime, connections and hasQuorum are read.
  3. TLC re-computes the step-down decision and the has-quorum indicator from the real numbers (FallbackTrace.tla)."""
import os, sys, json, time, random, shutil, hashlib, concurrent.futures

from . import tlc, evidence, findings


def run_case(nvoters, F, seed, steps=120):
    from . import simcluster as sc
    import pysyncobj.pickle as sopickle
    rng = random.Random(seed)
    ids = ['a', 'b', 'c', 'd', 'e'][:nvoters]
    memb = nvoters >= 2 and rng.random() < 0.4
    cfg = {'voters': ids, 'init_connected': True, 'period': 10.0, 'fallback': float(F)}
    if memb:
        cfg['membership'] = True
        cfg['spares'] = ['z']        # a node that may be added as a member although its process is never started
    early_cut = (not memb) and rng.random() < 0.2     # cut off the moment it wins, before anything of its term is acknowledged
    # read-only nodes stay connected to the leader and keep answering it whatever happens to the voters
    observers = ['o1', 'o2'][:rng.choice([0, 0, 1, 2])] if not memb else []
    if observers:
        cfg['observers'] = observers
    cl = sc.Cluster(cfg)
    trace = []
    try:
        def drain():
            for _ in range(50):
                moved = False
                for (i, j), q in list(cl.net.chan.items()):
                    while cl.applicable(('Deliver', i, j)):
                        cl.step(('Deliver', i, j))
                        moved = True
                if not moved:
                    break
        cl.step(('Tick', 'a', 'j'))
        if early_cut:
            # only the votes travel; what the new leader sends after that is lost, nothing of its term is ever acknowledged
            for _ in range(3):
                for f in ids[1:]:
                    if not cl.nodes['a'].obj._isLeader():
                        while cl.applicable(('Deliver', 'a', f)):
                            cl.step(('Deliver', 'a', f))
                        while cl.applicable(('Deliver', f, 'a')) and not cl.nodes['a'].obj._isLeader():
                            cl.step(('Deliver', f, 'a'))
            for f in ids[1:]:
                cl.net.chan[('a', f)] = []
                cl.net.chan[(f, 'a')] = []
        else:
            drain()
        for o_ in (observers if not early_cut else []):
            for v_ in ids:
                if cl.applicable(('Connect', o_, v_)):
                    cl.step(('Connect', o_, v_))
        if not early_cut:
            drain()
            cl.step(('Tick', 'a', 'z'))
            drain()
        L = cl.nodes['a']
        t0 = L.clock
        acks = {}          # cid -> observation index at submission
        seen_acks = set()

        def obs(kind, **extra):
            o = L.obj
            g = lambda name: getattr(o, '_SyncObj__' + name)
            others = sorted(n.id for n in g('otherNodes'))
            rec = {'a': kind, 'now': int(round(L.clock - t0)), 'role': 'L' if o._isLeader() else 'F',
                   'last': {n.id: int(round(t - t0)) for n, t in g('lastResponseTime').items()},
                   'hq': bool(o.hasQuorum), 'conn': sorted(n.id for n in g('connectedNodes')),
                   # ground truth of the connections, from the network (not from the node's own bookkeeping)
                   'up': sorted(f for f in others if ('a', f) in cl.net.up),
                   'others': others}
            rec.update(extra)
            trace.append(rec)
            # SUCCESS callbacks of commands accepted by this leader
            for cid, outs in list(cl.rec.cbs.items()):
                if cid in acks and cid not in seen_acks and any(o_[1] == 0 for o_ in outs):
                    seen_acks.add(cid)
                    r2 = dict(rec, a='Ack', subL=acks[cid])
                    trace.append(r2)

        def deliver_to_leader(f):
            q = cl.net.chan.get((f, 'a')) or []
            mt = '?'
            try:
                d = q[0].data
                mt = 'hello' if d == sc.HELLO else str(sopickle.loads(d).get('type'))
            except Exception:
                pass
            cl.step(('Deliver', f, 'a'))
            obs('Reply', **{'from': f, 'mt': mt})
        obs('Init')
        cut = set(ids[1:]) if early_cut else set()
        removed = None
        ncmd = 0
        for _ in range(steps):
            r = rng.random()
            if not L.obj._isLeader():
                break
            if r < 0.42:
                dt = rng.choice([0, 3, 3, 5, 10, 10, 11, 12] + ([20, 30, F - 1, F, F + 1] if rng.random() < 0.25 else []))
                cl.step(('Tick', 'a', str(int(dt))))
                obs('Tick')
                for o_ in observers:
                    while cl.applicable(('Deliver', 'a', o_)):
                        cl.step(('Deliver', 'a', o_))
                    while cl.applicable(('Deliver', o_, 'a')) and L.obj._isLeader():
                        deliver_to_leader(o_)
                # followers answer what they received, unless cut off
                for f in ids[1:]:
                    if f in cut:
                        cl.net.chan[('a', f)] = []
                    else:
                        while cl.applicable(('Deliver', 'a', f)):
                            cl.step(('Deliver', 'a', f))
                        if rng.random() < 0.6:
                            while cl.applicable(('Deliver', f, 'a')) and L.obj._isLeader():
                                deliver_to_leader(f)
            elif r < 0.68:
                f = rng.choice(ids[1:])
                if f not in cut and cl.applicable(('Deliver', f, 'a')):
                    deliver_to_leader(f)
            elif r < 0.76:
                f = rng.choice(ids[1:])
                cut.add(f)
                if rng.random() < 0.5:
                    cut.update(ids[1:])       # cut off from everybody
                cl.net.chan[(f, 'a')] = []
            elif r < 0.82:
                f = rng.choice(ids[1:])
                cut.discard(f)
            elif r < 0.87:
                f = rng.choice(sorted(cut)) if cut and rng.random() < 0.7 else rng.choice(ids[1:])
                for act in (('Break', 'a', f), ('Notice', 'a', f)):
                    if cl.applicable(act):
                        cl.step(act)
                obs('Net')
            elif r < 0.93:
                # the link comes back (for a cut-off follower: half-open - nothing it says gets through)
                f = rng.choice(sorted(cut)) if cut and rng.random() < 0.7 else rng.choice(ids[1:])
                for act in (('Connect', 'a', f), ('Deliver', 'a', f)):
                    if cl.applicable(act):
                        cl.step(act)
                if f in cut:
                    cl.net.chan[(f, 'a')] = []
                obs('Net')
            elif r < 0.97:
                ncmd += 1
                cid = 'c%d' % ncmd
                acks[cid] = len(trace)
                cl.step(('Submit', 'a', cid, {'kind': 'op'}))
                obs('Sub')
            elif memb and removed is None:
                if rng.random() < 0.5 and len(ids) >= 3:
                    removed = rng.choice(ids[1:])
                    cl.step(('Submit', 'a', 'm1', {'kind': 'rem', 'x': removed}))
                else:
                    removed = 'z'       # (added, never started: it never answers)
                    cl.step(('Submit', 'a', 'm1', {'kind': 'add', 'x': 'z'}))
                obs('Sub')
        return {'f': int(F), 'n': nvoters, 'steps': trace}
    finally:
        cl.close()


def validate(traces, workdir, label):
    tf = os.path.join(workdir, label + '.json')
    with open(tf, 'w') as f:
        json.dump({'traces': traces}, f, separators=(',', ':'))
    cf = os.path.join(workdir, label + '.cfg')
    with open(cf, 'w') as f:
        f.write('SPECIFICATION TSpec\nCHECK_DEADLOCK FALSE\n')
    rc, o, wall = tlc.run_tlc('FallbackTrace.tla', cf, workdir, env={'TRACE_FILE': tf}, workers=1, timeout=600)
    v = tlc.parse_tuples(o)
    st = tlc.parse_stats(o)
    return {'ok': st['completed'], 'out': '' if st['completed'] else o, 'done': len(v['DONE']), 'n': len(traces),
            'viol': [tlc.parse_verdict_line(b) for b in v['VIOL']], 'drift': [tlc.parse_verdict_line(b) for b in v['DRIFT']]}


def _job(a):
    return run_case(*a)


def run(prop, tier, seed, out=print):
    import multiprocessing
    t0 = time.time()
    ev = evidence.Evidence(prop, tier, seed, 'model_checking')
    workdir = tlc.scratch('verif_C20_')
    machinery, viols, drift = [], [], []
    try:
        stats = []
        for c in ('fallback_1.cfg', 'fallback_2.cfg', 'fallback_4.cfg'):
            rc, o, wall = tlc.run_tlc('Fallback.tla', os.path.join(tlc.SPEC_DIR, c), workdir, workers=8, timeout=60 if tier == 'quick' else 900, heap='6g')
            st = tlc.parse_stats(o)
            st.update(cfg=c, wall=wall, timeout=(rc == 124))
            stats.append(st)
            if st['error']:
                machinery.append('Fallback.tla %s: %s' % (c, st['error']))
        out('  [spec] Fallback.tla: %s' % ', '.join('%s %d states%s' % (s['cfg'], s['distinct'], '' if s['completed'] else ' (time bound)') for s in stats))
        cases = []
        n = 160 if tier == 'quick' else 3000
        for k in range(n):
            cases.append((2 + k % 4, [11, 25, 300][k % 3], seed * 7919 + k))
        with multiprocessing.Pool(max(1, tlc.NCPU - 2)) as pool:
            traces = pool.map(_job, cases, chunksize=2)
        per = max(1, (len(traces) + 7) // 8)
        with concurrent.futures.ThreadPoolExecutor(max_workers=8) as ex:
            futs = {ex.submit(validate, traces[b:b + per], workdir, 'fb%d' % b): b for b in range(0, len(traces), per)}
            for fu in concurrent.futures.as_completed(futs):
                b = futs[fu]
                r = fu.result()
                if not r['ok'] or r['done'] != r['n']:
                    machinery.append('fallback trace validator failed: ' + r['out'][-400:])
                    continue
                for v in r['viol']:
                    viols.append(dict(names=v['names'], case=list(cases[b + v['tid'] - 1]), step=v['l']))
                for d in r['drift']:
                    drift.append(dict(source='case%d' % (b + d['tid'] - 1), step=d['l'], action=d.get('action'), fields=d.get('names')))
        nsteps = sum(len(t['steps']) for t in traces)
        nstepdown = sum(1 for t in traces if t['steps'] and t['steps'][-1]['role'] == 'F')
        out('  [code->spec] %d timed runs on real leaders (%d observations, %d ended in a step-down) validated by TLC; drift: %d; formula failures: %d'
            % (len(traces), nsteps, nstepdown, len(drift), len(viols)))
        ev.mc, ev.traces, ev.steps, ev.drift = stats, len(traces), nsteps, drift
        ev.distinct_actions = len({json.dumps([s['a'], s['role'], s['hq'], len(s['conn'])]) + str(t['n']) + str(t['f']) for t in traces for s in t['steps']})
        ev.sample_traces = [('case', [json.dumps(traces[0])[:400]])]
        kf = findings.load()
        reported, known, seen = [], {}, set()
        for v in viols:
            k = findings.match(kf, prop, v)
            if k is not None:
                known[k['id']] = k
                continue
            key = tuple(sorted(v['names']))
            if key in seen:
                continue
            seen.add(key)
            d = os.environ.get('VERIF_REPLAY_DIR') or os.path.join(tlc.ROOT, 'replays')
            os.makedirs(d, exist_ok=True)
            body = {'engine': 'fallback', 'property': prop, 'formulas': v['names'], 'case': v['case']}
            path = os.path.join(d, '%s-%s.json' % (prop, hashlib.sha1(json.dumps(body, sort_keys=True).encode()).hexdigest()[:10]))
            json.dump(body, open(path, 'w'))
            reported.append((v, path))
        for d in drift[:6]:
            out('MODEL-DRIFT property=%s step=%s fields=%s source=%s' % (prop, d.get('action'), d.get('fields'), d.get('source')))
        ev.known, ev.violations, ev.machinery, ev.wall = sorted(known), len(reported), machinery, time.time() - t0
        ev.write()
        for v, path in reported[:4]:
            out('VIOLATION property=%s replay=%s' % (prop, path))
            out('  formula(s) %s false at observation %d of timed run %s' % (v['names'], v['step'], v['case']))
        if reported:
            return 1
        if machinery:
            for m in machinery[:4]:
                out('MACHINERY-FAILURE: ' + m)
            return 2
        return 0
    finally:
        shutil.rmtree(workdir, ignore_errors=True)


def replay(path, out=print):
    body = json.load(open(path))
    tr = run_case(*body['case'])
    wd = tlc.scratch('verif_replayfb_')
    try:
        r = validate([tr], wd, 'replay')
        hit = [x for x in r['viol'] if set(x.get('names', [])) & set(body['formulas'])]
        for x in r['viol']:
            out('  observation %d: %s' % (x['l'], x.get('names')))
        if hit:
            out('VIOLATION property=%s replay=%s' % (body['property'], path))
            return 1
        out('no formula of %s fails on this run' % body['property'])
        return 0
    finally:
        shutil.rmtree(wd, ignore_errors=True)

"""C13: TCP framing against spec/Framing.tla.

  1. TLC explores Framing.tla exhaustively for four parameter families (intact frames; negative length fields;
     too short / too long length fields; corrupted payloads): every cut of the byte stream by short writes and by
     split / merged reads, with the C13 formulas as invariants.
  2. A real TcpConnection pair is driven over scripted sockets: real pickled+compressed messages (sizes from empty to
     larger than the receive buffer), every fragmentation pattern the script chooses (all cuts for small frames,
     seeded random ones for large), corruptions written into the real bytes.
  3. TLC validates each recorded trace against FramingTrace.tla."""
import os, sys, json, time, random, shutil, struct, socket, zlib, errno, itertools

from . import tlc, evidence, findings

REPO = os.environ.get('VERIF_REPO', '/repo')
if REPO not in sys.path:
    sys.path.insert(0, REPO)


class FakePoller(object):
    def subscribe(self, descr, callback, mask):
        pass

    def unsubscribe(self, descr):
        pass


class FakeSock(object):
    """a non-blocking socket whose send / recv results are chosen by the script"""
    _fd = 1000

    def __init__(self):
        FakeSock._fd += 1
        self.fd = FakeSock._fd
        self.send_script = []      # numbers of bytes the next send calls accept; empty -> EAGAIN
        self.sent = b''            # everything accepted so far
        self.recv_script = []      # byte strings the next recv calls return; empty -> EAGAIN
        self.closed = False

    def fileno(self):
        return self.fd

    def send(self, data):
        if not self.send_script:
            raise socket.error(errno.EAGAIN, 'EAGAIN')
        k = min(self.send_script.pop(0), len(data))
        self.sent += data[:k]
        return k

    def recv(self, n):
        if not self.recv_script:
            raise socket.error(errno.EAGAIN, 'EAGAIN')
        chunk = self.recv_script[0]
        if len(chunk) <= n:
            self.recv_script.pop(0)
            return chunk
        self.recv_script[0] = chunk[n:]
        return chunk[:n]

    def getsockopt(self, *a):
        return 0

    def connect(self, addr):
        raise socket.error(errno.EINPROGRESS, 'in progress')

    def setblocking(self, f):
        pass

    def ioctl(self, *a):
        pass

    def setsockopt(self, *a):
        pass

    def close(self):
        self.closed = True


class _SockMod(object):
    """the `socket` module as tcp_connection sees it when the SAME connection object dials again: hands out the socket the
    script has prepared"""
    error = socket.error
    errno = errno

    def __init__(self):
        self.next = None

    def __getattr__(self, name):
        return getattr(socket, name)

    def socket(self, *a, **kw):
        return self.next


def run_case(msgs, corrupt, sends, recvs, recv_buf=64, send_buf=2 ** 16, prelude=None):
    """msgs: list of python objects to send; corrupt: None | (frame index 1-based, kind, value);
    sends: list of byte counts accepted by the sender's socket; recvs: list of byte counts per READ event."""
    import pysyncobj.tcp_connection as T
    import pysyncobj.pickle as P_
    from pysyncobj.poller import POLL_EVENT_TYPE
    T.monotonicTime = lambda: 1000.0
    poller = FakePoller()
    ss, rs = FakeSock(), FakeSock()
    delivered, ndisc = [], [0]
    sender = T.TcpConnection(poller, socket=ss, timeout=1e9, sendBufferSize=send_buf, recvBufferSize=recv_buf)
    receiver = T.TcpConnection(poller, socket=rs, timeout=1e9, sendBufferSize=2 ** 16, recvBufferSize=recv_buf)
    receiver.setOnMessageReceivedCallback(lambda m: delivered.append(m))
    receiver.setOnDisconnectedCallback(lambda: ndisc.__setitem__(0, ndisc[0] + 1))
    if prelude is not None:
        # The receiving connection object has a past: on its previous connection it had read `prelude` bytes of a frame
        # (the length field and part of the payload) when that connection was given up; the object then dialled again
        # (TCPTransport re-uses its outgoing connection objects).  What follows is the new connection's stream.
        old = zlib.compress(P_.dumps(('old-connection', 'x' * 300)), 3)
        rs.recv_script = [(struct.pack('i', len(old)) + old)[:prelude]]
        try:
            receiver._TcpConnection__processConnection(rs.fileno(), POLL_EVENT_TYPE.READ)
        except Exception:
            pass
        receiver.disconnect()
        mod = _SockMod()
        rs = FakeSock()
        mod.next = rs
        saved = T.socket
        T.socket = mod
        try:
            receiver.connect('10.0.0.1', 1)
            receiver._TcpConnection__processConnection(rs.fileno(), POLL_EVENT_TYPE.WRITE)
        finally:
            T.socket = saved
        delivered[:] = []
        ndisc[0] = 0
    steps = []
    # frame layout from the real bytes
    import pysyncobj.pickle as P
    payloads = [zlib.compress(P.dumps(m), 3) for m in msgs]
    n = [len(p) for p in payloads]
    lens = list(n)
    bad = []
    wire_fix = {}
    if corrupt:
        f, kind, val = corrupt
        if kind == 'len':
            lens[f - 1] = val
        elif kind in ('payload', 'junk'):
            bad.append(f)
    # sender side: hand all messages to send() with EAGAIN, then let the socket accept bytes as scripted
    for i, m in enumerate(msgs):
        before = len(sender._TcpConnection__writeBuffer)
        sender.send(m)
        if corrupt and corrupt[1] == 'junk' and corrupt[0] == i + 1:
            # a frame whose length field and compression are intact but whose content is not a pickled message
            body = zlib.compress(bytes(corrupt[2]), 3)
            sender._TcpConnection__writeBuffer = sender._TcpConnection__writeBuffer[:before] + struct.pack('i', len(body)) + body
            n[i] = lens[i] = len(body)
        steps.append({'a': 'Send'})
    stream = b''
    total = sum(4 + x for x in n)
    expected = bytes(sender._TcpConnection__writeBuffer)        # the frames, in order
    for k in sends:
        if len(ss.sent) >= total:
            break
        # one flush: the socket accepts the scripted amounts call after call, then reports EAGAIN
        ss.send_script = list(k) if isinstance(k, (list, tuple)) else [k]
        before = len(ss.sent)
        sender._TcpConnection__trySendBuffer()
        acc = len(ss.sent) - before
        if acc:
            steps.append({'a': 'SockSend', 'k': acc, 'wireok': ss.sent == expected[:len(ss.sent)]})
    while len(ss.sent) < total:
        ss.send_script = [1 << 20]
        before = len(ss.sent)
        sender._TcpConnection__trySendBuffer()
        steps.append({'a': 'SockSend', 'k': len(ss.sent) - before, 'wireok': ss.sent == expected[:len(ss.sent)]})
        if len(ss.sent) == before:
            break       # the sender has nothing more to give although bytes are missing
    stream = bytearray(ss.sent)
    # corruption is applied to the bytes on the wire
    off = 0
    for i, x in enumerate(list(n)):
        if corrupt and corrupt[0] == i + 1:
            if corrupt[1] == 'len':
                stream[off:off + 4] = struct.pack('i', corrupt[2])
            elif corrupt[1] == 'junk':
                pass        # already in place (put into the sender's buffer)
            else:
                for q in range(off + 4, off + 4 + x):
                    stream[q] = (stream[q] ^ 0x5A) & 0xFF
        off += 4 + x
    stream = bytes(stream)
    pos = 0
    ids = {id(m): i + 1 for i, m in enumerate(msgs)}
    exc = False
    for k in recvs + [1 << 20]:
        if pos >= len(stream) or receiver.state != T.CONNECTION_STATE.CONNECTED:
            break
        chunk = stream[pos:pos + k]
        pos += len(chunk)
        rs.recv_script = [chunk]
        try:
            receiver._TcpConnection__processConnection(rs.fileno(), POLL_EVENT_TYPE.READ)
        except Exception as e:
            exc = True
        dl = []
        for m in delivered:
            dl.append(msgs.index(m) + 1 if m in msgs else 0)
        steps.append({'a': 'Recv', 'k': len(chunk), 'delivered': dl,
                      'state': 'C' if receiver.state == T.CONNECTION_STATE.CONNECTED else 'D',
                      'rbuf': len(receiver._TcpConnection__readBuffer), 'ndisc': ndisc[0], 'exc': exc})
        exc = False
    return {'n': n, 'l': lens, 'bad': bad, 'steps': steps}


def gen_cases(tier, seed):
    rng = random.Random(seed)
    cases = []
    small = [0, 'ab', {'k': 1}]            # distinct small messages
    import pysyncobj.pickle as P
    sizes = [len(zlib.compress(P.dumps(m), 3)) + 4 for m in small]
    total = sum(sizes)
    corrs = [None, (2, 'len', -3), (1, 'len', -1), (2, 'len', -(sizes[2] + 1)), (3, 'len', -1), (2, 'len', 1), (2, 'len', sizes[1] - 4 + 3),
             (1, 'len', 1000), (2, 'payload', 0), (1, 'payload', 0), (3, 'payload', 0), (2, 'len', -(sizes[2])), (2, 'len', -2 - sizes[2])]
    # every single cut position of the stream (two reads), for every corruption
    for c in corrs:
        for cut in range(1, total):
            cases.append((small, c, [total], [cut]))
    # every pair of cuts on the intact stream
    step = 1 if tier == 'thorough' else 3
    for a in range(1, total, step):
        for b in range(a + 1, total, step):
            cases.append((small, None, [a, b - a], [a, b - a]))
    # undecodable content behind an intact length field and an intact compression layer
    junks = [[255] * 10, [0x80, 0x04, 0x95], list(b'garbage'), [], [0x80, 0x02, 0xc3, 0x01], [ord('('), ord('l'), 0xfe], [0x4b]]
    for j in junks:
        for f in (1, 2, 3):
            for cut in (1, total // 2, total - 1):
                cases.append((small, (f, 'junk', j), [total], [cut]))
            cases.append((small, (f, 'junk', j), [1] * total, [1] * total))
    # the sender's socket fills up exactly at the end of a piece handed to send() (pieces of sendBufferSize bytes)
    for sb in (8, 16):
        for npieces in (1, 2, 3):
            cases.append((small, None, [[sb] * npieces] + [[sb] * 2] * 8 + [[total]], [total], 64, sb))
            cases.append((small, None, [[sb] * npieces, [3], [sb, sb]] + [[total]], [5, 7, total], 64, sb))
    # the receiving connection object is re-used after a connection that ended in the middle of a frame
    for prelude in (4, 5, 9, 40):
        for cut in (1, 3, total // 2, total - 1):
            cases.append((small, None, [total], [cut], 64, 2 ** 16, prelude))
        cases.append((small, None, [1] * total, [1] * total, 64, 2 ** 16, prelude))
        cases.append((small, (2, 'payload', 0), [total], [total // 2], 64, 2 ** 16, prelude))
    # byte-by-byte
    for c in corrs:
        cases.append((small, c, [1] * total, [1] * total))
    # large messages, larger than the receive buffer, random fragmentation and random corruption
    nrand = 150 if tier == 'quick' else 4000
    for _ in range(nrand):
        msgs = []
        for i in range(rng.randint(1, 4)):
            kind = rng.random()
            if kind < 0.3:
                msgs.append(('m%d' % i, i))
            elif kind < 0.6:
                msgs.append(('m%d' % i, bytes(rng.getrandbits(8) for _ in range(rng.randint(0, 90)))))
            else:
                msgs.append(('m%d' % i, bytes(rng.getrandbits(8) for _ in range(rng.randint(100, 400)))))
        pl = [len(zlib.compress(P.dumps(m), 3)) for m in msgs]
        c = None
        r = rng.random()
        f = rng.randint(1, len(msgs))
        if r < 0.15:
            c = (f, 'len', -rng.randint(1, 600))
        elif r < 0.25:
            c = (f, 'len', max(0, pl[f - 1] - rng.randint(1, 5)))
        elif r < 0.35:
            c = (f, 'len', pl[f - 1] + rng.randint(1, 40))
        elif r < 0.5:
            c = (f, 'payload', 0)
        tot = sum(pl) + 4 * len(pl)
        if r >= 0.5 and r < 0.6:
            c = (f, 'junk', [rng.getrandbits(8) for _ in range(rng.randint(0, 12))])
        sb = rng.choice([2 ** 16, 2 ** 16, 32, 64, 100])
        sends = []
        for _ in range(40):
            g = rng.choice([1, 1, 2, 3])
            sends.append([rng.choice([sb, sb, rng.randint(1, 120)]) if sb < 1000 else rng.randint(1, 120) for _ in range(g)])
        recvs = [rng.randint(1, 150) for _ in range(60)]
        cases.append((msgs, c, sends, recvs, 64, sb))
    return cases


def validate(traces, workdir, label):
    tf = os.path.join(workdir, label + '.json')
    with open(tf, 'w') as f:
        json.dump({'traces': traces}, f, separators=(',', ':'))
    cf = os.path.join(workdir, label + '.cfg')
    with open(cf, 'w') as f:
        f.write('SPECIFICATION TSpec\nCONSTANTS\n  Scenario = "trace"\n  MaxStep = 1\nCHECK_DEADLOCK FALSE\n')
    rc, o, wall = tlc.run_tlc('FramingTrace.tla', cf, workdir, env={'TRACE_FILE': tf}, workers=1, timeout=900)
    v = tlc.parse_tuples(o)
    st = tlc.parse_stats(o)
    return {'ok': st['completed'], 'out': '' if st['completed'] else o, 'done': len(v['DONE']), 'ntraces': len(traces),
            'viol': [tlc.parse_verdict_line(b) for b in v['VIOL']], 'drift': [tlc.parse_verdict_line(b) for b in v['DRIFT']]}


def run(prop, tier, seed, out=print):
    import concurrent.futures, hashlib
    t0 = time.time()
    ev = evidence.Evidence(prop, tier, seed, 'model_checking')
    workdir = tlc.scratch('verif_C13_')
    machinery, viols, drift = [], [], []
    try:
        stats = []
        for sc in ('ok', 'neg', 'len', 'bad'):
            rc, o, wall = tlc.run_tlc('Framing.tla', os.path.join(tlc.SPEC_DIR, 'framing_%s.cfg' % sc), workdir, workers=4, timeout=300)
            st = tlc.parse_stats(o)
            st.update(cfg='framing_%s.cfg' % sc, wall=wall)
            stats.append(st)
            if not st['completed']:
                machinery.append('Framing.tla %s: %s' % (sc, (st.get('error') or o[-400:])))
        out('  [spec] Framing.tla: %d distinct states over 4 parameter families, all complete: %s' % (sum(s['distinct'] for s in stats), all(s['completed'] for s in stats)))
        cases = gen_cases(tier, seed)
        traces = []
        for case in cases:
            traces.append(run_case(*case))
        per = max(1, (len(traces) + 13) // 14)
        jobs = [(b, traces[b:b + per]) for b in range(0, len(traces), per)]
        with concurrent.futures.ThreadPoolExecutor(max_workers=14) as ex:
            futs = {ex.submit(validate, chunk, workdir, 'fb%d' % b): b for (b, chunk) in jobs}
            for fu in concurrent.futures.as_completed(futs):
                b = futs[fu]
                r = fu.result()
                if not r['ok'] or r['done'] != r['ntraces']:
                    machinery.append('framing trace validator failed: ' + r['out'][-500:])
                    continue
                for v in r['viol']:
                    viols.append(dict(names=v['names'], case=b + v['tid'] - 1, step=v['l']))
                for d in r['drift']:
                    drift.append(dict(source='case%d' % (b + d['tid'] - 1), step=d['l'], action=d.get('action'), fields=d.get('names')))
        nsteps = sum(len(t['steps']) for t in traces)
        out('  [code->spec] %d fragmentation / corruption cases (%d steps) on a real TcpConnection pair validated by TLC; drift: %d; formula failures: %d'
            % (len(traces), nsteps, len(drift), len(viols)))
        ev.mc, ev.traces, ev.steps, ev.drift = stats, len(traces), nsteps, drift
        ev.distinct_actions = len({json.dumps([t['n'], t['l'], t['bad'], [s.get('k') for s in t['steps']]]) for t in traces})
        ev.sample_traces = [('case%d' % i, [json.dumps(traces[i])[:300]]) for i in (0, len(traces) - 1)]
        kf = findings.load()
        reported, known = [], {}
        seen = set()
        for v in viols:
            k = findings.match(kf, prop, v)
            if k is not None:
                known[k['id']] = k
                continue
            key = tuple(sorted(v['names']))
            if key in seen:
                continue
            seen.add(key)
            msgs, c, sends, recvs = cases[v['case']][:4]
            extra = list(cases[v['case']][4:])
            d = os.environ.get('VERIF_REPLAY_DIR') or os.path.join(tlc.ROOT, 'replays')
            os.makedirs(d, exist_ok=True)
            body = {'engine': 'framing', 'property': prop, 'formulas': v['names'], 'msgs': repr(msgs), 'corrupt': c, 'sends': sends, 'recvs': recvs, 'extra': extra}
            path = os.path.join(d, '%s-%s.json' % (prop, hashlib.sha1(json.dumps(body, sort_keys=True).encode()).hexdigest()[:10]))
            json.dump(body, open(path, 'w'))
            reported.append((v, path, c))
        for d in drift[:6]:
            out('MODEL-DRIFT property=%s step=%s fields=%s source=%s' % (prop, d.get('action'), d.get('fields'), d.get('source')))
        for k in known.values():
            out('KNOWN-FINDING: property=%s %s' % (prop, k['what']))
        ev.known, ev.violations, ev.machinery, ev.wall = sorted(known), len(reported), machinery, time.time() - t0
        ev.write()
        for v, path, c in reported[:4]:
            out('VIOLATION property=%s replay=%s' % (prop, path))
            out('  formula(s) %s false at step %d, corruption %s' % (v['names'], v['step'], c))
        if reported:
            return 1
        if machinery:
            for m in machinery[:4]:
                out('MACHINERY-FAILURE: ' + m)
            return 2
        return 0
    finally:
        shutil.rmtree(workdir, ignore_errors=True)


def replay(path, out=print):
    body = json.load(open(path))
    msgs = eval(body['msgs'], {'__builtins__': {}})
    c = tuple(body['corrupt']) if body['corrupt'] else None
    wd = tlc.scratch('verif_replayf_')
    try:
        tr = run_case(list(msgs), c, body['sends'], body['recvs'], *body.get('extra', []))
        r = validate([tr], wd, 'replay')
        hit = [x for x in r['viol'] if set(x.get('names', [])) & set(body['formulas'])]
        for x in r['viol']:
            out('  step %d: %s' % (x['l'], x.get('names')))
        if hit:
            out('VIOLATION property=%s replay=%s' % (body['property'], path))
            return 1
        out('no formula of %s fails on this case' % body['property'])
        return 0
    finally:
        shutil.rmtree(wd, ignore_errors=True)

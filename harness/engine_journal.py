"""C08: the file journal against spec/Journal.tla.

  1. TLC explores Journal.tla exhaustively (all operation sequences up to MaxOps over the size classes, a kill
     before every primitive write of every operation, reopen anywhere) with the C08 formulas as invariants.
  2. The real FileJournal (and MemoryJournal as the reference list) is driven through operation sequences -
     every sequence of length <= L over a small alphabet, plus seeded random ones with sizes up to several times
     the file size - with kills placed by harness/crashfs.py before the k-th primitive write; what is on disk is
     re-read after every step.
  3. TLC validates every recorded trace against JournalTrace.tla (storage computed by the specification vs
     storage observed; C08 formulas on the observed states)."""
import os, sys, json, time, random, shutil, struct, itertools

from . import tlc, evidence, findings

REPO = os.environ.get('VERIF_REPO', '/repo')
if REPO not in sys.path:
    sys.path.insert(0, REPO)


class _N(object):
    """stand-in for the stepping node that crashfs consults"""
    def __init__(self):
        self.dead, self.writes, self.kill_at = False, 0, None


def run_ops(ops, workdir, name):
    """execute one operation sequence [(kind, arg, kill)] on a real FileJournal; returns the trace steps.
    kill = k: the process is killed before the (k+1)-th primitive write of that operation."""
    import pysyncobj.journal as J
    from . import crashfs
    node = _N()
    crashfs.State.node = lambda: node
    crashfs.State.on_kill = None
    crashfs.install()
    path = os.path.join(workdir, name + '.journal')
    for p in (path, path + '.meta', path + '.meta.tmp'):
        if os.path.exists(p):
            os.unlink(p)
    fj = J.FileJournal(path)
    mj = J.MemoryJournal()
    steps = []

    def view():
        out = []
        for e in (crashfs.read_journal(path) or []):
            out.append({'id': -1, 'sz': -1} if e is None else {'id': int(e[1]), 'sz': len(e[0])})
        return out

    def memlist(j):
        return [{'id': int(e[1]), 'sz': len(e[0])} for e in j[:]]

    def meta():
        return int(crashfs.read_meta(path + '.meta').get('raftCommitIndex', 1))

    def reopen():
        j = J.FileJournal(path)
        m = J.MemoryJournal()
        for e in j[:]:
            m.add(*e)
        return j, m
    nextid = 1
    for (kind, arg, kill) in ops:
        kill = -1 if kill is None else int(kill)
        rec = {'op': kind, 'kill': -1, 'exc': False}
        node.dead, node.writes, node.kill_at = False, 0, (kill + 1 if kill >= 0 else None)
        try:
            if kind == 'add':
                rec['id'], rec['sz'] = nextid, arg
                cmd = (struct.pack('<I', nextid) * (arg // 4 + 1))[:arg]
                fj.add(cmd, nextid, 1)
                if not node.dead:
                    mj.add(cmd, nextid, 1)
                nextid += 1
            elif kind == 'clear':
                fj.clear()
                if not node.dead:
                    mj.clear()
            elif kind == 'delfrom':
                n = min(arg, len(fj))
                rec['n'] = n
                fj.deleteEntriesFrom(n)
                if not node.dead:
                    mj.deleteEntriesFrom(n)
            elif kind == 'delto':
                n = min(arg, len(fj))
                rec['n'] = n
                fj.deleteEntriesTo(n)
                if not node.dead:
                    mj.deleteEntriesTo(n)
            elif kind == 'setc':
                rec['c'] = arg
                fj.setRaftCommitIndex(arg)
            elif kind == 'timer':
                fj.onOneSecondTimer()
            elif kind == 'reopen':
                node.dead = True
                try:
                    fj._destroy()
                except Exception:
                    pass
                node.dead = False
                fj, mj = reopen()
        except Exception as e:
            if not node.dead:
                rec['exc'] = True
                rec['exc_type'] = type(e).__name__
        killed = node.dead
        node.kill_at = None
        if killed:
            rec['kill'] = kill
            try:
                fj._destroy()
            except Exception:
                pass
            node.dead = False
            rec['mem'] = []
        else:
            rec['mem'] = memlist(fj)
            rec['ref'] = memlist(mj)
        rec['visible'], rec['fsize'], rec['meta'] = view(), os.path.getsize(path), meta()
        steps.append(rec)
        if rec['exc']:
            break       # an operation that raised leaves the object in no state the specification defines: the sequence ends here
        if killed:
            fj, mj = reopen()       # a dead process can only be started again
            steps.append({'op': 'reopen', 'kill': -1, 'exc': False, 'mem': memlist(fj), 'ref': memlist(mj),
                          'visible': view(), 'fsize': os.path.getsize(path), 'meta': meta()})
    try:
        fj._destroy()
    except Exception:
        pass
    return steps


def gen_sequences(tier, seed):
    """operation sequences as lists of (kind, argument or None, kill-before-write k or None)"""
    rng = random.Random(seed)
    seqs = []
    alphabet = [('add', 0), ('add', 30), ('add', 1000), ('add', 2500), ('clear', None), ('delfrom', 1), ('delto', 1),
                ('setc', 2), ('timer', None), ('reopen', None)]
    L = 3 if tier == 'quick' else 4
    for s in itertools.product(alphabet, repeat=L):
        seqs.append([(k, a, None) for (k, a) in s])
    base = [[('add', 30), ('add', 1000), ('add', 30)], [('add', 0), ('add', 30), ('add', 30), ('add', 30)],
            [('add', 30), ('setc', 3), ('add', 2500)], [('add', 30), ('setc', 4), ('timer', None), ('setc', 6)]]
    for b in base:
        for op in [('add', 30), ('add', 2500), ('clear', None), ('delfrom', 1), ('delto', 1), ('delto', 2), ('setc', 2), ('timer', None)]:
            for k in range(0, 8):
                pre = [(x, a, None) for (x, a) in b]
                if op[0] == 'timer' and b[-1][0] != 'setc':
                    pre.append(('setc', 5, None))
                seqs.append(pre + [(op[0], op[1], k)])
    nrand = 300 if tier == 'quick' else 6000
    for _ in range(nrand):
        n = rng.randint(3, 14)
        s = []
        for _ in range(n):
            r = rng.random()
            if r < 0.45:
                s.append(('add', rng.choice([0, 1, 7, 30, 200, 900, 1000, 1100, 2000, 2500, 5000, 9000]), None))
            elif r < 0.55:
                s.append(('delfrom', rng.randint(0, 6), None))
            elif r < 0.65:
                s.append(('delto', rng.randint(0, 4), None))
            elif r < 0.70:
                s.append(('clear', None, None))
            elif r < 0.80:
                s.append(('setc', rng.randint(1, 9), None))
            elif r < 0.88:
                s.append(('timer', None, None))
            else:
                s.append(('reopen', None, None))
        if rng.random() < 0.6:
            op = rng.choice([('add', rng.choice([30, 1500, 4000])), ('delfrom', rng.randint(0, 3)), ('delto', rng.randint(0, 3)), ('clear', None), ('timer', None)])
            s.append((op[0], op[1], rng.randint(0, 7)))
        seqs.append(s)
    return seqs


def run(prop, tier, seed, out=print):
    t0 = time.time()
    ev = evidence.Evidence(prop, tier, seed, 'model_checking')
    workdir = tlc.scratch('verif_C08_')
    machinery, viols, drift = [], [], []
    try:
        # 1. exhaustive exploration of the specification
        cf = os.path.join(tlc.SPEC_DIR, 'journal_mc.cfg' if tier == 'quick' else 'journal_mc_big.cfg')
        if not os.path.isfile(cf):
            cf = os.path.join(tlc.SPEC_DIR, 'journal_mc.cfg')
        rc, o, wall = tlc.run_tlc('Journal.tla', cf, workdir, workers=max(1, tlc.NCPU - 2), timeout=600, heap='8g')
        st = tlc.parse_stats(o)
        st.update(cfg=os.path.basename(cf), wall=wall, timeout=(rc == 124))
        ev.mc = [st]
        out('  [spec] %s: %d distinct states, depth %d, %s (%.0fs)' % (st['cfg'], st['distinct'], st['depth'],
            'complete' if st['completed'] else ('COUNTEREXAMPLE ' + str(st.get('violated'))), wall))
        if not st['completed']:
            machinery.append('Journal.tla model checking did not complete: ' + o[-600:])
        # 2. real executions
        seqs = gen_sequences(tier, seed)
        traces = []
        for k, sq in enumerate(seqs):
            traces.append(run_ops(sq, workdir, 't%d' % (k % 64)))
        # 3. validation
        per = max(1, (len(traces) + 13) // 14)
        jobs = []
        for b in range(0, len(traces), per):
            jobs.append(('jb%d' % b, traces[b:b + per], b))
        import concurrent.futures
        results = {}
        with concurrent.futures.ThreadPoolExecutor(max_workers=14) as ex:
            futs = {ex.submit(validate, chunk, workdir, label): (label, base) for (label, chunk, base) in jobs}
            for fu in concurrent.futures.as_completed(futs):
                results[futs[fu]] = fu.result()
        ndone = 0
        for (label, base), r in results.items():
            ndone += r['done']
            if not r['ok'] or r['done'] != r['ntraces']:
                machinery.append('journal trace validator failed on %s: %s' % (label, r['out'][-600:]))
                continue
            for v in r['viol']:
                viols.append(dict(names=v['names'], seq=seqs[base + v['tid'] - 1], step=v['l'], source='seq%d' % (base + v['tid'] - 1),
                                  action=v.get('action')))
            for d in r['drift']:
                drift.append(dict(source='seq%d' % (base + d['tid'] - 1), step=d['l'], action=d.get('action'), fields=d.get('names')))
        nsteps = sum(len(t) for t in traces)
        out('  [code->spec] %d operation sequences (%d steps, %d with a kill) on the real FileJournal validated by TLC; drift: %d; formula failures: %d'
            % (ndone, nsteps, sum(1 for t in traces for s in t if s['kill'] >= 0), len(drift), len(viols)))
        ev.traces, ev.steps, ev.drift = len(traces), nsteps, drift
        ev.sample_traces = [('seq%d' % i, [list(map(str, op)) for op in seqs[i]]) for i in (0, len(seqs) // 2, len(seqs) - 1)]
        ev.distinct_actions = len({json.dumps([s['op'], s.get('sz'), s['kill'], len(s['visible'])]) for t in traces for s in t})
        return finish(prop, ev, viols, drift, machinery, t0, out)
    finally:
        shutil.rmtree(workdir, ignore_errors=True)


def validate(traces, workdir, label):
    tf = os.path.join(workdir, label + '.json')
    with open(tf, 'w') as f:
        json.dump({'traces': [{'steps': t} for t in traces]}, f, separators=(',', ':'))
    cf = os.path.join(workdir, label + '.cfg')
    with open(cf, 'w') as f:
        f.write('SPECIFICATION TSpec\nCONSTANTS\n  Sizes = {0}\n  InitSize = 1024\n  MaxOps = 1000000\n  MaxLen = 1000000\n  Commits = {1}\nCHECK_DEADLOCK FALSE\n')
    rc, o, wall = tlc.run_tlc('JournalTrace.tla', cf, workdir, env={'TRACE_FILE': tf}, workers=1, timeout=900)
    v = tlc.parse_tuples(o)
    st = tlc.parse_stats(o)
    return {'ok': st['completed'], 'out': '' if st['completed'] else o, 'done': len(v['DONE']), 'ntraces': len(traces),
            'viol': [tlc.parse_verdict_line(b) for b in v['VIOL']], 'drift': [tlc.parse_verdict_line(b) for b in v['DRIFT']]}


def finish(prop, ev, viols, drift, machinery, t0, out):
    kf = findings.load()
    reported, known = [], {}
    seen = set()
    for v in viols:
        key = tuple(sorted(v['names']))
        k = findings.match(kf, prop, v)
        if k is not None:
            known[k['id']] = k
            continue
        if key in seen:
            continue
        seen.add(key)
        d = os.environ.get('VERIF_REPLAY_DIR') or os.path.join(tlc.ROOT, 'replays')
        os.makedirs(d, exist_ok=True)
        import hashlib
        body = {'engine': 'journal', 'property': prop, 'formulas': v['names'], 'seq': [list(op) for op in v['seq']], 'step': v['step']}
        path = os.path.join(d, '%s-%s.json' % (prop, hashlib.sha1(json.dumps(body, sort_keys=True).encode()).hexdigest()[:10]))
        json.dump(body, open(path, 'w'))
        reported.append((v, path))
    for d in drift[:8]:
        out('MODEL-DRIFT property=%s step=%s fields=%s source=%s' % (prop, d.get('action'), d.get('fields'), d.get('source')))
    for k in known.values():
        out('KNOWN-FINDING: property=%s %s' % (prop, k['what']))
    ev.known, ev.violations, ev.machinery, ev.wall = sorted(known), len(reported), machinery, time.time() - t0
    ev.write()
    for v, path in reported[:3]:
        out('VIOLATION property=%s replay=%s' % (prop, path))
        out('  formula(s) %s false at step %d of operation sequence %s' % (v['names'], v['step'], v['seq']))
    if reported:
        return 1
    if machinery:
        for m in machinery:
            out('MACHINERY-FAILURE: ' + m)
        return 2
    return 0


def replay(path, out=print):
    body = json.load(open(path))
    wd = tlc.scratch('verif_replayj_')
    try:
        tr = run_ops([tuple(op) for op in body['seq']], wd, 'replay')
        r = validate([tr], wd, 'replay')
        hit = [x for x in r['viol'] if set(x.get('names', [])) & set(body['formulas'])]
        for x in r['viol']:
            out('  step %d: %s' % (x['l'], x.get('names')))
        if hit:
            out('VIOLATION property=%s replay=%s' % (body['property'], path))
            return 1
        out('no formula of %s fails on this sequence' % body['property'])
        return 0
    finally:
        shutil.rmtree(wd, ignore_errors=True)

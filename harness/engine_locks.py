"""C16: replicated locks (spec/Locks.tla).

  1. TLC explores Locks.tla exhaustively on a small instance (2 clients, 1 lock, clock 0..6, U = 4, arbitrary commit
     delay and apply lag) with the C16 formulas as invariants, and by simulation on a larger one (3 clients, 2 locks).
  2. The simulator's behaviours (and seeded random ones) are executed on REAL ReplLockManager wrappers and real
     _ReplLockManagerImpl replicas: one replica per client, a shared log, a virtual clock replacing the time module the
     batteries use; commands are the real pickled commands the wrappers emit.
  3. TLC validates every recorded run against LocksTrace.tla (tables, answers, isAcquired) and evaluates mutual exclusion
     on the real answers."""
import os, sys, json, time, random, shutil, re, hashlib, types, concurrent.futures

from . import tlc, evidence, findings

REPO = os.environ.get('VERIF_REPO', '/repo')
if REPO not in sys.path:
    sys.path.insert(0, REPO)

U = 4


class VT(object):
    now = 0

    @staticmethod
    def time():
        return VT.now

    @staticmethod
    def sleep(x):
        import time as _t
        _t.sleep(0.0005)


class FakeSyncObj(object):
    """just enough of SyncObj for a consumer: resolves method names/ids and captures the commands it emits"""

    def __init__(self, impl):
        self.impl = impl
        self.captured = []
        names = [m for m in dir(impl) if callable(getattr(impl, m)) and getattr(getattr(impl, m), 'replicated', False)
                 and m != getattr(getattr(impl, m), 'origName')]
        self._methodToID, self._id2name = {}, {}
        for i, m in enumerate(sorted(names)):
            self._methodToID[(id(impl), m)] = i
            self._id2name[i] = m

    def _getLeader(self):
        return None          # keeps the wrapper's own prolongation thread idle: prolongations are scheduled explicitly

    def _getFuncName(self, key):
        return key[1] + '_v0'

    def _applyCommand(self, command, callback, commandType=None):
        import pysyncobj.pickle as P
        cmd = P.loads(command)
        if not isinstance(cmd, tuple):
            fid, args, kw = cmd, (), {}
        elif len(cmd) == 2:
            fid, args, kw = cmd[0], cmd[1], {}
        else:
            fid, args, kw = cmd
        self.captured.append((self._id2name[fid], tuple(args), dict(kw), callback))


def execute(acts, clients, locks, guarded=False):
    import pysyncobj.batteries as B
    B.time = VT
    VT.now = 0
    mgr, fake = {}, {}
    for c in clients:
        m = B.ReplLockManager(autoUnlockTime=U, selfID=c)
        impl = m._consumer()
        f = FakeSyncObj(impl)
        impl._syncObj = f
        mgr[c], fake[c] = m, f
    queue = {c: [] for c in clients}
    log = []
    applied = {c: 0 for c in clients}
    held = {c: {l: False for l in locks} for c in clients}
    waiting = {c: {l: False for l in locks} for c in clients}
    steps = []
    try:
        for a in acts:
            exc = False
            answers = []
            ownacq = []
            if guarded:
                # the specification's guards, decided from what the real objects have answered so far
                k = a[0]
                if k == 'tryAcquire' and waiting[a[1]][a[2]]:
                    continue
                if k == 'release' and waiting[a[1]][a[2]]:
                    continue
                if k == 'commit' and not queue[a[1]]:
                    continue
                if k == 'apply' and applied[a[1]] >= len(log):
                    continue
            try:
                k = a[0]
                if k == 'tick':
                    VT.now += 1
                elif k == 'tryAcquire':
                    c, l = a[1], a[2]

                    def cb(res, err, c=c, l=l):
                        held[c][l] = bool(res)
                        waiting[c][l] = False
                        answers.append((c, l, bool(res)))
                    waiting[c][l] = True
                    mgr[c].tryAcquire(l, callback=cb, sync=False)
                elif k == 'release':
                    c, l = a[1], a[2]
                    held[c][l] = False
                    mgr[c].release(l)
                elif k == 'prolong':
                    c = a[1]
                    fake[c].impl.prolongate(c, VT.now)
                elif k == 'snap':
                    # the replica is rebuilt from its own snapshot (what a restart or a snapshot installation does)
                    c = a[1]
                    old = fake[c].impl
                    data = old._serialize()
                    new = B._ReplLockManagerImpl(U)
                    new._deserialize(data)
                    new._syncObj = fake[c]
                    fake[c].impl = new
                    for (oid, mname), fid in list(fake[c]._methodToID.items()):
                        if oid == id(old):
                            fake[c]._methodToID[(id(new), mname)] = fid
                    for nm in dir(mgr[c]):
                        if getattr(mgr[c], nm, None) is old:
                            setattr(mgr[c], nm, new)
                    for nm, val in list(vars(mgr[c]).items()):
                        if val is old:
                            setattr(mgr[c], nm, new)
                elif k == 'commit':
                    c = a[1]
                    if queue[c]:
                        log.append((c,) + queue[c].pop(0))
                elif k == 'apply':
                    c = a[1]
                    if applied[c] < len(log):
                        origin, name, args, kw, cb = log[applied[c]]
                        applied[c] += 1
                        res = getattr(fake[c].impl, name)(*args, _doApply=True, **kw)
                        if origin == c and name.startswith('acquire'):
                            ownacq.append((c, args[0] if args else kw.get('lockID')))
                        if origin == c and cb is not None:
                            cb(res, 0)
                for c in clients:
                    if fake[c].captured:
                        queue[c] += [x for x in fake[c].captured]
                        fake[c].captured = []
            except Exception as e:
                exc = True
            rec = {'a': list(a), 'exc': exc, 'tab': {}, 'held': {}, 'isacq': {}, 'qlen': {}}
            for c in clients:
                t = getattr(fake[c].impl, '_ReplLockManagerImpl__locks')
                rec['tab'][c] = {l: ({'c': t[l][0], 't': int(t[l][1])} if l in t else {'c': 'none', 't': 0}) for l in locks}
                rec['held'][c] = {l: bool(held[c][l]) for l in locks}
                rec['isacq'][c] = {l: bool(mgr[c].isAcquired(l)) for l in locks}
                rec['qlen'][c] = len(queue[c])
            rec['lag'] = {c: len(log) - applied[c] for c in clients}
            rec['yes'] = {c: {l: any(x == (c, l, True) for x in answers) for l in locks} for c in clients}
            rec['ownacq'] = {c: {l: (c, l) in ownacq for l in locks} for c in clients}
            rec['waiting'] = {c: {l: bool(waiting[c][l]) for l in locks} for c in clients}
            steps.append(rec)
    finally:
        for c in clients:
            mgr[c].destroy()
    return steps


def simulate(workdir, num, seed):
    cf = os.path.join(tlc.SPEC_DIR, 'locks_sim.cfg')
    rc, out, wall = tlc.run_tlc('Locks.tla', cf, workdir, workers=1, timeout=300, heap='3g',
                                extra=['-simulate', 'num=%d' % num, '-depth', '40', '-seed', str(seed)])
    res, seen = [], set()
    for buf in tlc.parse_tuples(out, tags=('ACTS',))['ACTS']:
        m = re.search(r'"(\[.*\])"\s*>>$', buf)
        if not m:
            continue
        try:
            sch = json.loads(m.group(1).encode().decode('unicode_escape'))
        except Exception:
            continue
        key = json.dumps(sch[:-1])
        if key in seen:
            continue
        seen.add(key)
        res.append(sch)
    return res, out


def random_acts(rng, clients, locks, n):
    """random behaviours biased towards contention, expiry and late answers (filtered by the spec's guards at validation)"""
    acts = []
    for _ in range(n):
        r = rng.random()
        c, l = rng.choice(clients), rng.choice(locks)
        if r < 0.22:
            acts.append(['tick'])
        elif r < 0.36:
            acts.append(['tryAcquire', c, l])
        elif r < 0.44:
            acts.append(['release', c, l])
        elif r < 0.50:
            acts.append(['prolong', c])
        elif r < 0.53:
            acts.append(['snap', c])
        elif r < 0.76:
            acts.append(['commit', c])
        else:
            acts.append(['apply', c])
    return acts


def directed_acts(rng, clients, locks):
    """behaviours steered into the corners of the rules, with random filling: a holder that stops prolonging and comes
    back after the auto-unlock time, an answer that arrives later than half of it, a release by a non-holder"""
    a, b = rng.sample(clients, 2)
    l = rng.choice(locks)
    everybody_applies = [['apply', c] for c in clients] * 2

    def grab(c):
        return [['tryAcquire', c, l], ['commit', c]] + everybody_applies
    kind = rng.choice(['expired-own', 'late-answer', 'foreign-release', 'expired-other', 'late-prolong', 'snap-contender'])
    acts = grab(a)
    if kind == 'expired-own':
        # nobody prolongs for longer than U; the former holder asks again, then somebody else does
        acts += [['tick']] * (U + rng.randint(1, 3)) + grab(a) + grab(b) + [['tick']] + grab(a)
    elif kind == 'expired-other':
        acts += [['tick']] * (U + rng.randint(1, 3)) + grab(b) + grab(a)
    elif kind == 'late-answer':
        acts = [['tryAcquire', a, l]] + [['tick']] * (U // 2 + rng.randint(1, 2)) + [['commit', a]] + everybody_applies
        acts += [['prolong', a], ['commit', a]] + everybody_applies + [['commit', a]] + everybody_applies + grab(b)
    elif kind == 'late-prolong':
        # the holder's prolongation comes after the lock has lapsed and is the first command anybody sees since
        acts += [['tick']] * (U + rng.randint(1, 3)) + [['prolong', a], ['commit', a]] + everybody_applies + grab(b) + [['tick']] + grab(a)
    elif kind == 'snap-contender':
        # the contender's replica has just been rebuilt from its snapshot
        acts += [['snap', b], ['snap', rng.choice(clients)]] + grab(b) + [['tick']] + grab(a)
    else:
        acts += [['release', b, l], ['commit', b]] + everybody_applies + grab(b)
    return acts + random_acts(rng, clients, locks, rng.randint(5, 30))


def validate(traces, clients, locks, workdir, label):
    tf = os.path.join(workdir, label + '.json')
    with open(tf, 'w') as f:
        json.dump({'traces': [{'steps': t} for t in traces]}, f, separators=(',', ':'))
    cf = os.path.join(workdir, label + '.cfg')
    with open(cf, 'w') as f:
        f.write('SPECIFICATION TSpec\nCONSTANTS\n  Clients = %s\n  Locks = %s\n  U = %d\n  MaxNow = 1000000\n  MaxLog = 1000000\n  Emit = FALSE\nCHECK_DEADLOCK FALSE\n'
                % (tlc.tla_set(clients), tlc.tla_set(locks), U))
    rc, o, wall = tlc.run_tlc('LocksTrace.tla', cf, workdir, env={'TRACE_FILE': tf}, workers=1, timeout=600)
    v = tlc.parse_tuples(o)
    st = tlc.parse_stats(o)
    return {'ok': st['completed'], 'out': '' if st['completed'] else o, 'done': len(v['DONE']), 'n': len(traces),
            'viol': [tlc.parse_verdict_line(b) for b in v['VIOL']], 'drift': [tlc.parse_verdict_line(b) for b in v['DRIFT']]}


def run(prop, tier, seed, out=print):
    t0 = time.time()
    ev = evidence.Evidence(prop, tier, seed, 'model_checking')
    workdir = tlc.scratch('verif_C16_')
    machinery, viols, drift = [], [], []
    try:
        cfgname = 'locks_mc3.cfg' if tier == 'quick' else 'locks_mc.cfg'
        rc, o, wall = tlc.run_tlc('Locks.tla', os.path.join(tlc.SPEC_DIR, cfgname), workdir, workers=max(1, tlc.NCPU - 2),
                                  timeout=150 if tier == 'quick' else 1800, heap='10g')
        st = tlc.parse_stats(o)
        st.update(cfg=cfgname, wall=wall, timeout=(rc == 124))
        out('  [spec] %s: %d distinct states, depth %d, %s (%.0fs)' % (cfgname, st['distinct'], st['depth'],
            'complete' if st['completed'] else ('COUNTEREXAMPLE ' + str(st.get('violated')) if st['error'] else 'time bound'), wall))
        if st['error']:
            machinery.append('Locks.tla: design-level counterexample to %s (see spec/locks_mc*.cfg)' % st.get('violated'))
        clients, locks = ['A', 'B', 'C'], ['x', 'y']
        sims, sout = simulate(workdir, 40 if tier == 'quick' else 1500, seed)
        if not sims:
            machinery.append('simulator produced no behaviours: ' + sout[-400:])
        rng = random.Random(seed)
        rands = []
        for _ in range(150 if tier == 'quick' else 4000):
            rands.append(random_acts(rng, clients, locks, rng.randint(20, 90)))
        for _ in range(60 if tier == 'quick' else 1500):
            rands.append(directed_acts(rng, clients, locks))
        traces, sources = [], []
        for i, a in enumerate(sims):
            traces.append(execute(a, clients, locks))
            sources.append(('sim', a))
        # random action lists are first run on the real code; the answers of the real code tell which later actions are enabled
        for i, a in enumerate(rands):
            steps = execute(a, clients, locks, guarded=True)
            traces.append(steps)
            sources.append(('rand', [s['a'] for s in steps]))
        per = max(1, (len(traces) + 7) // 8)
        with concurrent.futures.ThreadPoolExecutor(max_workers=8) as ex:
            futs = {ex.submit(validate, traces[b:b + per], clients, locks, workdir, 'lb%d' % b): b for b in range(0, len(traces), per)}
            for fu in concurrent.futures.as_completed(futs):
                b = futs[fu]
                r = fu.result()
                if not r['ok'] or r['done'] != r['n']:
                    machinery.append('locks trace validator failed (%d of %d traces accepted as behaviours): %s' % (r['done'], r['n'], r['out'][-300:]))
                    continue
                for v in r['viol']:
                    viols.append(dict(names=v['names'], acts=sources[b + v['tid'] - 1][1], step=v['l']))
                for d in r['drift']:
                    drift.append(dict(source='run%d' % (b + d['tid'] - 1), step=d['l'], action=d.get('action'), fields=d.get('names')))
        nsteps = sum(len(t) for t in traces)
        out('  [spec->code] %d simulator behaviours + %d random runs (%d steps) on real ReplLockManager wrappers / replicas validated by TLC; drift: %d; formula failures: %d'
            % (len(sims), len(rands), nsteps, len(drift), len(viols)))
        ev.mc, ev.traces, ev.steps, ev.drift = [st], len(traces), nsteps, drift
        ev.distinct_actions = len({json.dumps([s['a'], s['held'], s['isacq']]) for t in traces for s in t})
        ev.sample_traces = [(sources[0][0], [json.dumps(sources[0][1])[:300]])] if sources else []
        kf = findings.load()
        reported, known, seen = [], {}, set()
        for v in viols:
            k = findings.match(kf, prop, v)
            if k is not None:
                known[k['id']] = k
                continue
            key = tuple(sorted(v['names']))
            if key in seen:
                continue
            seen.add(key)
            d = os.environ.get('VERIF_REPLAY_DIR') or os.path.join(tlc.ROOT, 'replays')
            os.makedirs(d, exist_ok=True)
            body = {'engine': 'locks', 'property': prop, 'formulas': v['names'], 'acts': v['acts']}
            path = os.path.join(d, '%s-%s.json' % (prop, hashlib.sha1(json.dumps(body, sort_keys=True).encode()).hexdigest()[:10]))
            json.dump(body, open(path, 'w'))
            reported.append((v, path))
        for d in drift[:6]:
            out('MODEL-DRIFT property=%s step=%s fields=%s source=%s' % (prop, d.get('action'), d.get('fields'), d.get('source')))
        ev.known, ev.violations, ev.machinery, ev.wall = sorted(known), len(reported), machinery, time.time() - t0
        ev.write()
        for v, path in reported[:4]:
            out('VIOLATION property=%s replay=%s' % (prop, path))
            out('  formula(s) %s false at step %d' % (v['names'], v['step']))
        if reported:
            return 1
        if machinery:
            for m in machinery[:4]:
                out('MACHINERY-FAILURE: ' + m)
            return 2
        return 0
    finally:
        shutil.rmtree(workdir, ignore_errors=True)


def replay(path, out=print):
    body = json.load(open(path))
    clients, locks = ['A', 'B', 'C'], ['x', 'y']
    steps = execute(body['acts'], clients, locks)
    wd = tlc.scratch('verif_replayl_')
    try:
        r = validate([steps], clients, locks, wd, 'replay')
        hit = [x for x in r['viol'] if set(x.get('names', [])) & set(body['formulas'])]
        if hit:
            out('VIOLATION property=%s replay=%s' % (body['property'], path))
            return 1
        out('no formula of %s fails on this run' % body['property'])
        return 0
    finally:
        shutil.rmtree(wd, ignore_errors=True)

"""C19: thread-safe calls (spec/Threads.tla).

  1. TLC explores Threads.tla exhaustively: all interleavings of 2 callers x 2 calls against the tick thread at
     critical-section grain (queue lock, the three writes of AsyncResult, wait / timeout), queue limits 0 and 1.
  2. Stress episodes with REAL threads against a real auto-tick SyncObj (single-node cluster on a localhost port, tiny
     switch interval): FastQueue.put_nowait / get_nowait are wrapped so that the operation and its log record happen
     under one lock (sequence numbers, no wall-clock merging); apply / callback / return events come from the harness'
     own replicated method, from AsyncResult.onResult and from the calling threads.
  3. TLC folds every event log into the specification's variables (ThreadsTrace.tla), compares the queue discipline and
     evaluates the C19 formulas after every event.  Real interleavings are sampled, not enumerated."""
import os, sys, json, time, random, shutil, hashlib, threading, socket, collections, concurrent.futures

from . import tlc, evidence, findings

REPO = os.environ.get('VERIF_REPO', '/repo')
if REPO not in sys.path:
    sys.path.insert(0, REPO)

REASON = {1: 'QUEUE_FULL', 2: 'MISSING_LEADER', 3: 'DISCARDED', 4: 'NOT_LEADER', 5: 'LEADER_CHANGED', 6: 'REQUEST_DENIED'}


def free_port():
    s = socket.socket()
    s.bind(('127.0.0.1', 0))
    p = s.getsockname()[1]
    s.close()
    return p


def episode(ncallers, ncalls, qmax, seed, tiny_timeout_rate=0.15):
    import pysyncobj.syncobj as so
    import pysyncobj.fast_queue as fq
    from pysyncobj import SyncObj, SyncObjConf, replicated, SyncObjException
    import pysyncobj.pickle as P
    # real time and real randomness here (other engines of this process may have installed their virtual clock)
    import pysyncobj.monotonic as _mono
    import random as _random
    so.monotonicTime = _mono.monotonic
    so.random = _random
    rng = random.Random(seed)
    LOCK = threading.Lock()
    events = []
    local = threading.local()

    def log(ev):
        events.append(ev)       # always called with LOCK held

    def cmd_of(item):
        try:
            c = P.loads(item[0][1:])
            return c[1][0], c[1][1]
        except Exception:
            return None
    orig_put, orig_get = fq.FastQueue.put_nowait, fq.FastQueue.get_nowait
    orig_init, orig_onres = so.AsyncResult.__init__, so.AsyncResult.onResult

    racy = (seed % 3 == 0)      # one episode in three: the harness does NOT serialise the queue operations itself, and the
                                # scheduler is made to switch threads inside them (a preemption is legal anywhere)

    class YieldingDeque(collections.deque):
        def __len__(self):
            n = collections.deque.__len__(self)
            if racy and threading.current_thread().name.startswith('caller'):
                time.sleep(0.0003)
            return n

    def put_racy(self, value):
        m = cmd_of(value)
        try:
            r = orig_put(self, value)
            with LOCK:
                if m:
                    log({'ev': 'put', 'c': m[0], 'k': m[1], 'ok': True})
            return r
        except Exception:
            with LOCK:
                if m:
                    log({'ev': 'put', 'c': m[0], 'k': m[1], 'ok': False})
            raise

    def put(self, value):
        if racy:
            return put_racy(self, value)
        with LOCK:
            m = cmd_of(value)
            try:
                r = orig_put(self, value)
                if m:
                    log({'ev': 'put', 'c': m[0], 'k': m[1], 'ok': True})
                return r
            except Exception:
                if m:
                    log({'ev': 'put', 'c': m[0], 'k': m[1], 'ok': False})
                raise

    def get(self):
        with LOCK:
            v = orig_get(self)
            m = cmd_of(v)
            if m:
                log({'ev': 'get', 'c': m[0], 'k': m[1]})
            return v

    def ar_init(self):
        orig_init(self)
        self._verif_cmd = getattr(local, 'cmd', None)

    def ar_onres(self, res, err):
        with LOCK:
            m = getattr(self, '_verif_cmd', None)
            if m:
                log({'ev': 'cb', 'c': m[0], 'k': m[1]})
        return orig_onres(self, res, err)

    class Obj(SyncObj):
        def __init__(self, addr, conf):
            super(Obj, self).__init__(addr, [], conf)
            self.n = 0

        @replicated
        def call(self, c, k):
            self.n += 1
            with LOCK:
                log({'ev': 'apply', 'c': c, 'k': k})
            return [c, k, self.n]

    fq.FastQueue.put_nowait, fq.FastQueue.get_nowait = put, get
    orig_deque = fq.deque
    fq.deque = YieldingDeque
    so.AsyncResult.__init__, so.AsyncResult.onResult = ar_init, ar_onres
    old_sw = sys.getswitchinterval()
    sys.setswitchinterval(1e-5)
    o = None
    try:
        conf = SyncObjConf(autoTick=True, autoTickPeriod=0.01, appendEntriesPeriod=0.02, raftMinTimeout=0.1, raftMaxTimeout=0.2,
                           commandsQueueSize=qmax, commandsWaitLeader=True, connectionTimeout=0.2)
        o = Obj('127.0.0.1:%d' % free_port(), conf)
        t_end = time.time() + 3
        while not o._isLeader() and time.time() < t_end:
            time.sleep(0.01)
        callers = ['t%d' % (i + 1) for i in range(ncallers)]
        plans = {c: [(rng.random() < tiny_timeout_rate) for _ in range(ncalls)] for c in callers}

        def worker(c):
            for k in range(1, ncalls + 1):
                local.cmd = (c, k)
                tmo = 0.0005 if plans[c][k - 1] else 5.0
                try:
                    r = o.call(c, k, sync=True, timeout=tmo)
                    with LOCK:
                        if isinstance(r, list) and len(r) == 3:
                            log({'ev': 'ret', 'c': c, 'k': k, 'kind': 'value', 'rc': r[0], 'rk': r[1], 'pos': r[2]})
                        else:
                            log({'ev': 'ret', 'c': c, 'k': k, 'kind': 'raise', 'reason': 'garbage:' + repr(r)[:30]})
                except SyncObjException as e:
                    with LOCK:
                        code = e.errorCode
                        log({'ev': 'ret', 'c': c, 'k': k, 'kind': 'raise', 'reason': code if isinstance(code, str) else REASON.get(code, str(code))})
                except Exception as e:
                    with LOCK:
                        log({'ev': 'ret', 'c': c, 'k': k, 'kind': 'raise', 'reason': 'exc:' + type(e).__name__})
                if rng.random() < 0.3:
                    time.sleep(rng.random() * 0.004)
        ths = [threading.Thread(target=worker, args=(c,), name='caller-' + c) for c in callers]
        for t in ths:
            t.start()
        for t in ths:
            t.join(30)
        # let late completions happen: every call the queue accepted is given time to be applied (a loaded machine must not
        # look like a lost call), up to a generous bound
        t_wait = time.time() + 10
        while time.time() < t_wait:
            with LOCK:
                acc = {(e['c'], e['k']) for e in events if e['ev'] == 'put' and e.get('ok')}
                app = {(e['c'], e['k']) for e in events if e['ev'] == 'apply'}
            if acc <= app:
                break
            time.sleep(0.01)
        time.sleep(0.15)
        with LOCK:
            evs = list(events)
        return {'callers': callers, 'calls': ncalls, 'qmax': qmax, 'steps': evs, 'racy': racy}
    finally:
        sys.setswitchinterval(old_sw)
        fq.FastQueue.put_nowait, fq.FastQueue.get_nowait = orig_put, orig_get
        fq.deque = orig_deque
        so.AsyncResult.__init__, so.AsyncResult.onResult = orig_init, orig_onres
        if o is not None:
            try:
                o.destroy()
                time.sleep(0.05)
            except Exception:
                pass


def _job(a):
    try:
        return episode(*a)
    except Exception as e:
        return {'error': repr(e)}


def validate(traces, workdir, label):
    # one validator run per (callers, calls) shape: constants are literal
    tf = os.path.join(workdir, label + '.json')
    with open(tf, 'w') as f:
        json.dump({'traces': traces}, f, separators=(',', ':'))
    cf = os.path.join(workdir, label + '.cfg')
    with open(cf, 'w') as f:
        f.write('SPECIFICATION TSpec\nCONSTANTS\n  Callers = %s\n  Calls = %d\n  QMax = 0\nCHECK_DEADLOCK FALSE\n'
                % (tlc.tla_set(traces[0]['callers']), traces[0]['calls']))
    rc, o, wall = tlc.run_tlc('ThreadsTrace.tla', cf, workdir, env={'TRACE_FILE': tf}, workers=1, timeout=600)
    v = tlc.parse_tuples(o)
    st = tlc.parse_stats(o)
    return {'ok': st['completed'], 'out': '' if st['completed'] else o, 'done': len(v['DONE']), 'n': len(traces),
            'viol': [tlc.parse_verdict_line(b) for b in v['VIOL']], 'drift': [tlc.parse_verdict_line(b) for b in v['DRIFT']]}


def part(workdir, tier, seed, out=print):
    """Threads.tla + stress episodes with real threads; returns what engine_core.run merges into the C19 check"""
    import multiprocessing
    t0 = time.time()
    machinery, viols, drift = [], [], []
    if True:
        stats = []
        for q in (0, 1):
            cf = os.path.join(workdir, 'threads_q%d.cfg' % q)
            open(cf, 'w').write(open(os.path.join(tlc.SPEC_DIR, 'threads.cfg')).read().replace('QMax = 0', 'QMax = %d' % q))
            rc, o, wall = tlc.run_tlc('Threads.tla', cf, workdir, workers=8, timeout=600, heap='6g')
            st = tlc.parse_stats(o)
            st.update(cfg='threads.cfg QMax=%d' % q, wall=wall)
            stats.append(st)
            if not st['completed']:
                machinery.append('Threads.tla QMax=%d: %s' % (q, st.get('error') or o[-300:]))
        out('  [spec] Threads.tla: %s' % ', '.join('%s: %d states' % (s['cfg'], s['distinct']) for s in stats))
        n = 48 if tier == 'quick' else 1500
        cases = []
        for i in range(n):
            cases.append((3, 4, [0, 1, 2, 100][i % 4], seed * 104729 + i))
        with multiprocessing.Pool(8) as pool:
            res = pool.map(_job, cases, chunksize=1)
        good = [(i, r) for i, r in enumerate(res) if 'error' not in r]
        for r in [r for r in res if 'error' in r][:3]:
            machinery.append('episode failed in the harness: ' + r['error'])
        per = max(1, (len(good) + 7) // 8)
        with concurrent.futures.ThreadPoolExecutor(max_workers=8) as ex:
            futs = {}
            for b in range(0, len(good), per):
                chunk = good[b:b + per]
                futs[ex.submit(validate, [r for (_, r) in chunk], workdir, 'tb%d' % b)] = chunk
            for fu in concurrent.futures.as_completed(futs):
                chunk = futs[fu]
                r = fu.result()
                if not r['ok'] or r['done'] != r['n']:
                    machinery.append('threads trace validator failed: ' + r['out'][-400:])
                    continue
                for v in r['viol']:
                    i, rec = chunk[v['tid'] - 1]
                    viols.append(dict(names=v['names'], case=list(cases[i]), step=v['l']))
                for d in r['drift']:
                    i, rec = chunk[d['tid'] - 1]
                    drift.append(dict(source='episode%d' % i, step=d['l'], action=d.get('action'), fields=d.get('names')))
        nev = sum(len(r['steps']) for (_, r) in good)
        kinds = {}
        for (_, r) in good:
            for s in r['steps']:
                key = s['ev'] + (':' + s.get('reason', s.get('kind', '')) if s['ev'] == 'ret' else (':' + str(s.get('ok')) if s['ev'] == 'put' else ''))
                kinds[key] = kinds.get(key, 0) + 1
        out('  [code->spec] %d stress episodes with real threads (%d events) validated by TLC; drift: %d; formula failures: %d; events: %s'
            % (len(good), nev, len(drift), len(viols), json.dumps(kinds, sort_keys=True)))
        return dict(stats=stats, viols=viols, drift=drift, machinery=machinery, episodes=len(good), events=nev, kinds=kinds,
                    sample=[json.dumps(good[0][1]['steps'][:12])] if good else [])


def run(prop, tier, seed, out=print):
    from . import engine_core
    return engine_core.run(prop, tier, seed, out)


def write_replay(prop, v):
    d = os.environ.get('VERIF_REPLAY_DIR') or os.path.join(tlc.ROOT, 'replays')
    os.makedirs(d, exist_ok=True)
    body = {'engine': 'threads', 'property': prop, 'formulas': v['names'], 'case': v['case']}
    path = os.path.join(d, '%s-%s.json' % (prop, hashlib.sha1(json.dumps(body, sort_keys=True).encode()).hexdigest()[:10]))
    json.dump(body, open(path, 'w'))
    return path


def replay(path, out=print):
    body = json.load(open(path))
    wd = tlc.scratch('verif_replayt_')
    try:
        hit = False
        for k in range(20):       # real thread interleavings are not reproducible: repeat the episode
            c = list(body['case'])
            c[3] = c[3] + k
            tr = episode(*c)
            r = validate([tr], wd, 'replay%d' % k)
            if [x for x in r['viol'] if set(x.get('names', [])) & set(body['formulas'])]:
                hit = True
                break
        if hit:
            out('VIOLATION property=%s replay=%s' % (body['property'], path))
            return 1
        out('no formula of %s failed in 20 repetitions of this episode' % body['property'])
        return 0
    finally:
        shutil.rmtree(wd, ignore_errors=True)

"""C14: the real TCP transport over simulated sockets (spec/Transport.tla).

  1. TLC explores Transport.tla (one pair of members: dial rule, persistent outgoing connection object, registry replace on
     the acceptor, detection by error / end of file / read timeout, retry throttle; kernel faults: refuse, reset, black
     hole, acceptor restart) exhaustively with an integer clock.
  2. Real TCPTransport + TcpServer + TcpConnection objects of 3 members are driven over harness/fakesock.py under virtual
     time through seeded fault histories (refuse = node down, reset, black-hole until timeout, half-open, simultaneous
     reconnects, stale connection replaced, dropNode / addNode), followed by a quiet period.
  3. TLC evaluates the C14 formulas on every recorded state (TransportTrace.tla): registry vs ground truth of the simulated
     connections, authenticity of every delivery, convergence to exactly one working connection per pair."""
import os, sys, json, time, random, shutil, hashlib, errno, concurrent.futures

from . import tlc, evidence, findings

REPO = os.environ.get('VERIF_REPO', '/repo')
if REPO not in sys.path:
    sys.path.insert(0, REPO)


class Stub(object):
    """the part of SyncObj a TCPTransport needs"""

    def __init__(self, poller, conf):
        self._poller, self.conf, self.encryptor = poller, conf, None
        self.ticks = []

    def addOnTickCallback(self, cb):
        self.ticks.append(cb)

    def removeOnTickCallback(self, cb):
        if cb in self.ticks:
            self.ticks.remove(cb)


class World(object):
    def __init__(self, names, timeout=3.5, retry=2.0, ro_names=()):
        from . import fakesock as fs
        import pysyncobj.tcp_connection as TC
        import pysyncobj.tcp_server as TS
        import pysyncobj.transport as TR
        from pysyncobj import SyncObjConf
        self.fs, self.TC, self.TR = fs, TC, TR
        self.net = fs.FakeNet()
        self.cur = [None]
        mod = fs.socket_module(self.net, lambda: self.cur[0])
        TC.socket = mod
        TS.socket = mod
        TC.monotonicTime = lambda: self.net.now
        TR.monotonicTime = lambda: self.net.now
        self.names = names
        self.ro_names = list(ro_names)      # read-only nodes: no address of their own, they dial every member
        self.rov = {n: set() for n in names}    # per member: ids of the read-only nodes it has been told are connected
        self.addr = {n: '127.0.0.1:%d' % (1001 + i) for i, n in enumerate(names)}
        self.name_of = {v: k for k, v in self.addr.items()}
        for n in names:
            self.net.owner_of_port[1001 + names.index(n)] = n
        self.conf = SyncObjConf(autoTick=False, connectionTimeout=timeout, connectionRetryTime=retry, raftMinTimeout=1.0, raftMaxTimeout=timeout)
        self.tr, self.stub, self.view, self.delivered_new = {}, {}, {}, []
        self.members = {n: set(x for x in names if x != n) for n in names}
        self.up = {n: False for n in list(names) + self.ro_names}
        self.exc = False
        self.seq = 0
        for n in names:
            self.start(n)
        for n in self.ro_names:
            self.start(n)

    def start(self, n):
        from pysyncobj.node import TCPNode
        self.cur[0] = n
        poller = self.fs.FakePoller(self.net)
        stub = Stub(poller, self.conf)
        if n in self.ro_names:
            tr = self.TR.TCPTransport(stub, None, [TCPNode(self.addr[m]) for m in self.names])
            self.view[n] = set()
            tr.setOnNodeConnectedCallback(lambda node, n=n: self.view[n].add(self.name_of.get(node.id, node.id)))
            tr.setOnNodeDisconnectedCallback(lambda node, n=n: self.view[n].discard(self.name_of.get(node.id, node.id)))
            tr.setOnMessageReceivedCallback(lambda node, msg: None)
            self.tr[n], self.stub[n] = tr, stub
            self.up[n] = True
            try:
                tr.tryGetReady()
            except Exception:
                pass
            return
        others = [TCPNode(self.addr[m]) for m in self.names if m != n and m in self.members[n]]
        tr = self.TR.TCPTransport(stub, TCPNode(self.addr[n]), others)
        self.view[n] = set()
        self.rov[n] = set()
        tr.setOnReadonlyNodeConnectedCallback(lambda node, n=n: self.rov[n].add(node.id))
        tr.setOnReadonlyNodeDisconnectedCallback(lambda node, n=n: self.rov[n].discard(node.id))
        tr.setOnNodeConnectedCallback(lambda node, n=n: self.view[n].add(self.name_of.get(node.id, node.id)))
        tr.setOnNodeDisconnectedCallback(lambda node, n=n: self.view[n].discard(self.name_of.get(node.id, node.id)))
        tr.setOnMessageReceivedCallback(lambda node, msg, n=n: self.on_msg(n, node, msg))
        self.tr[n], self.stub[n] = tr, stub
        self.up[n] = True
        try:
            tr.tryGetReady()
        except Exception:
            pass

    def on_msg(self, at, node, msg):
        frm = self.name_of.get(node.id, node.id)
        if isinstance(msg, (list, tuple)) and len(msg) == 3 and msg[0] == 'ping':
            self.delivered_new.append({'at': at, 'frm': frm, 'sender': msg[1], 'seq': msg[2], 'member': frm in self.members[at]})
            self.got.setdefault((at, msg[1]), set()).add(msg[2])

    got = {}

    def kill(self, n):
        """the process dies: the kernel closes its sockets (FIN where the path is up)"""
        self.up[n] = False
        for s in list(self.net.socks.values()):
            if s.owner == n and s.state != 'closed':
                s.close()
        self.tr.pop(n, None)
        self.view[n] = set()

    def step_node(self, n, ping=True):
        if not self.up[n]:
            return
        self.cur[0] = n
        try:
            for cb in list(self.stub[n].ticks):
                cb()
            self.stub[n]._poller.poll(0)
            if ping and n not in self.ro_names:
                from pysyncobj.node import TCPNode
                for m in sorted(self.members[n]):
                    self.seq += 1
                    self.tr[n].send(TCPNode(self.addr[m]), ('ping', n, self.seq))
        except Exception as e:
            self.exc = True

    def observe(self, act, final=False):
        pairs = []
        from pysyncobj.node import TCPNode
        for d in self.names:
            for a in self.names:
                if d == a or not (self.addr[d] > self.addr[a]):
                    continue
                rec = {'d': d, 'a': a, 'dstate': 0, 'areg': False, 'dconn': 0, 'aconn': 0, 'dsock': 'none', 'asock': 'none',
                       'dpeer': 'none', 'apeer': 'none', 'dview': a in self.view.get(d, ()), 'aview': d in self.view.get(a, ()),
                       'members': self.up[d] and self.up[a] and (a in self.members[d]) and (d in self.members[a]), 'pingok': False, 'nlive': 0}

                def sock_of(conn):
                    s = getattr(conn, '_TcpConnection__socket', None)
                    return s

                def st(s):
                    if s is None:
                        return 'none'
                    if s.err or s.state == 'refused':
                        return 'err'
                    if s.state == 'est' and s.fin:
                        return 'err'
                    return s.state
                if self.up[d]:
                    c = self.tr[d]._connections.get(TCPNode(self.addr[a]))
                    if c is not None:
                        rec['dstate'] = int(c.state)
                        s = sock_of(c)
                        rec['dsock'] = st(s)
                        rec['dconn'] = s.conn_id if s is not None else 0
                        rec['dpeer'] = st(s.peer) if s is not None and s.peer is not None else 'none'
                if self.up[a]:
                    c = self.tr[a]._connections.get(TCPNode(self.addr[d]))
                    if c is not None and int(c.state) == 2:
                        rec['areg'] = True
                        s = sock_of(c)
                        rec['asock'] = st(s)
                        rec['aconn'] = s.conn_id if s is not None else 0
                        rec['apeer'] = st(s.peer) if s is not None and s.peer is not None else 'none'
                # for how long has a connection that this side counts as connected been silent (ground truth of the socket)
                rec['dsilent'] = rec['asilent'] = 0
                if self.up[d]:
                    c = self.tr[d]._connections.get(TCPNode(self.addr[a]))
                    if c is not None and int(c.state) == 2 and sock_of(c) is not None:
                        rec['dsilent'] = int(2 * (self.net.now - sock_of(c).t_data))
                if self.up[a]:
                    c = self.tr[a]._connections.get(TCPNode(self.addr[d]))
                    if c is not None and int(c.state) == 2 and sock_of(c) is not None:
                        rec['asilent'] = int(2 * (self.net.now - sock_of(c).t_data))
                rec['nlive'] = sum(1 for cid, (x, y) in self.net.conns.items()
                                   if x is not None and y is not None and x.owner == d and y.owner == a and x.state == 'est' and y.state == 'est')
                if final:
                    rec['pingok'] = bool(self.fresh.get((a, d))) and bool(self.fresh.get((d, a)))
                pairs.append(rec)
        # read-only nodes: what every member has registered / been told, against the connections that really exist
        ro = []
        for v in self.names:
            if not self.up[v]:
                continue
            live = sum(1 for cid, (x, y) in self.net.conns.items()
                       if x is not None and y is not None and x.owner in self.ro_names and y.owner == v and x.state == 'est' and y.state == 'est')
            ro.append({'v': v, 'reg': len(self.tr[v]._readonlyNodes), 'told': len(self.rov[v]), 'live': live,
                       'up': sum(1 for r in self.ro_names if self.up[r])})
        e = {'a': [act], 'pairs': pairs, 'delivered': self.delivered_new, 'exc': self.exc, 'ro': ro}
        self.delivered_new = []
        self.exc = False
        return e

    fresh = {}


def run_case(seed, nfaults=14):
    rng = random.Random(seed)
    names = ['A', 'B', 'C']
    ro_names = ['R1', 'R2', 'R3'][:rng.choice([0, 0, 2, 3])]
    w = World(names, ro_names=ro_names)
    allnames = names + ro_names
    w.got, w.fresh = {}, {}
    steps = []
    dt = 0.5

    def round_(act, ping=True):
        w.net.now += dt
        for n in allnames:
            w.step_node(n, ping)
        steps.append(w.observe(act))
    for _ in range(6):
        round_('run')
    for _ in range(nfaults):
        r = rng.random()
        a, b = rng.sample(names, 2)
        if r < 0.2:
            w.net.blackhole.add(frozenset((a, b)))
            act = 'blackhole'
        elif r < 0.35:
            w.net.blackhole.discard(frozenset((a, b)))
            act = 'heal'
        elif r < 0.5:
            live = [(x, y) for cid, (x, y) in w.net.conns.items() if x is not None and y is not None and x.state == 'est' and y.state == 'est']
            if live:
                x, y = rng.choice(live)
                x.err = y.err = errno.ECONNRESET
            act = 'reset'
        elif r < 0.58:
            # half-open: one end learns that the connection is gone, the other end notices nothing
            live = [(x, y) for cid, (x, y) in w.net.conns.items() if x is not None and y is not None and x.state == 'est' and y.state == 'est']
            if live:
                x, y = rng.choice(live)
                z = x if rng.random() < 0.7 else y      # mostly the dialling side (it will dial again)
                z.err = errno.ECONNRESET
                z.silent_close = True
            act = 'halfopen'
        elif r < 0.62:
            # the forgotten end of a half-open connection finally learns of its death (late FIN / RST / keep-alive)
            left = [x for x in w.net.socks.values() if x.state == 'est' and x.peer is not None and x.peer.state == 'closed' and not x.fin and not x.err]
            if left:
                x = rng.choice(left)
                if rng.random() < 0.5:
                    x.fin = True
                else:
                    x.err = errno.ECONNRESET
            act = 'lateend'
        elif r < 0.635:
            # the network of one member is down for a while: its connect() calls fail at once
            if a in w.net.netdown:
                w.net.netdown.discard(a)
                act = 'netup'
            else:
                w.net.netdown.add(a)
                act = 'netdown'
        elif r < 0.65:
            if ro_names and rng.random() < 0.6:
                a = rng.choice(ro_names)        # read-only nodes leave and (re-)join in any order
            if w.up[a]:
                w.kill(a)
                act = 'kill'
            else:
                w.start(a)
                act = 'start'
        elif r < 0.72:
            down = [n for n in names if not w.up[n]]
            if down:
                w.start(down[0])
            act = 'start'
        elif r < 0.82:
            from pysyncobj.node import TCPNode
            if w.up[a] and b in w.members[a]:
                w.cur[0] = a
                w.members[a].discard(b)
                w.tr[a].dropNode(TCPNode(w.addr[b]))
                w.view[a].discard(b)
            act = 'dropNode'
        elif r < 0.9:
            from pysyncobj.node import TCPNode
            if w.up[a] and b not in w.members[a]:
                w.cur[0] = a
                w.members[a].add(b)
                w.tr[a].addNode(TCPNode(w.addr[b]))
            act = 'addNode'
        else:
            act = 'run'
        for _ in range(rng.randint(1, 5)):
            round_(act)
    # quiet period: everything healed, everybody up and a member of everybody again
    from pysyncobj.node import TCPNode
    w.net.blackhole.clear()
    w.net.netdown.clear()
    # (keep-alive: the forgotten end of every half-open connection learns of its death by now)
    for x in w.net.socks.values():
        if x.state == 'est' and x.peer is not None and x.peer.state == 'closed' and not x.fin and not x.err:
            x.err = errno.ECONNRESET
    for n in names:
        if not w.up[n]:
            w.members[n] = set(x for x in names if x != n)
            w.start(n)
    for n in ro_names:
        if not w.up[n]:
            w.start(n)
    for n in names:
        for m in names:
            if m != n and m not in w.members[n]:
                w.cur[0] = n
                w.members[n].add(m)
                w.tr[n].addNode(TCPNode(w.addr[m]))
    T = w.conf.connectionTimeout + w.conf.connectionRetryTime + 3.0
    for _ in range(int(2 * T / dt)):
        round_('quiet')
    steps.append(w.observe('settled'))
    # fresh messages both ways
    w.got = {}
    base = w.seq
    for _ in range(4):
        round_('quiet')
    for n in names:
        for m in names:
            if n != m:
                w.fresh[(n, m)] = any(s > base for s in w.got.get((n, m), ()))     # n received something new from m
    steps.append(w.observe('quiet-end', final=True))
    return {'seed': seed, 'steps': steps, 'timeout2': int(round(2 * w.conf.connectionTimeout))}


def validate(traces, workdir, label):
    tf = os.path.join(workdir, label + '.json')
    with open(tf, 'w') as f:
        json.dump({'traces': traces}, f, separators=(',', ':'))
    cf = os.path.join(workdir, label + '.cfg')
    with open(cf, 'w') as f:
        f.write('SPECIFICATION TSpec\nCHECK_DEADLOCK FALSE\n')
    rc, o, wall = tlc.run_tlc('TransportTrace.tla', cf, workdir, env={'TRACE_FILE': tf}, workers=1, timeout=600)
    v = tlc.parse_tuples(o)
    st = tlc.parse_stats(o)
    return {'ok': st['completed'], 'out': '' if st['completed'] else o, 'done': len(v['DONE']), 'n': len(traces),
            'viol': [tlc.parse_verdict_line(b) for b in v['VIOL']], 'drift': []}


def _job(seed):
    try:
        return run_case(seed)
    except Exception as e:
        import traceback
        return {'error': traceback.format_exc()[-600:], 'seed': seed}


def run(prop, tier, seed, out=print):
    import multiprocessing
    t0 = time.time()
    ev = evidence.Evidence(prop, tier, seed, 'model_checking')
    workdir = tlc.scratch('verif_C14_')
    machinery, viols = [], []
    try:
        rc, o, wall = tlc.run_tlc('Transport.tla', os.path.join(tlc.SPEC_DIR, 'transport.cfg'), workdir, workers=8, timeout=300, heap='6g')
        st = tlc.parse_stats(o)
        st.update(cfg='transport.cfg', wall=wall)
        out('  [spec] Transport.tla: %d distinct states, %s (%.0fs)' % (st['distinct'], 'complete' if st['completed'] else str(st.get('error')), wall))
        if not st['completed']:
            machinery.append('Transport.tla: ' + (st.get('error') or o[-300:]))
        n = 80 if tier == 'quick' else 3000
        seeds = [seed * 15485863 + i for i in range(n)]
        with multiprocessing.Pool(max(1, tlc.NCPU - 2)) as pool:
            res = pool.map(_job, seeds, chunksize=2)
        good = [r for r in res if 'error' not in r]
        for r in [r for r in res if 'error' in r][:3]:
            machinery.append('run failed in the harness (seed %s): %s' % (r['seed'], r['error']))
        per = max(1, (len(good) + 7) // 8)
        with concurrent.futures.ThreadPoolExecutor(max_workers=8) as ex:
            futs = {ex.submit(validate, good[b:b + per], workdir, 'xb%d' % b): b for b in range(0, len(good), per)}
            for fu in concurrent.futures.as_completed(futs):
                b = futs[fu]
                r = fu.result()
                if not r['ok'] or r['done'] != r['n']:
                    machinery.append('transport trace validator failed: ' + r['out'][-400:])
                    continue
                for v in r['viol']:
                    viols.append(dict(names=v['names'], seed=good[b + v['tid'] - 1]['seed'], step=v['l'], action=v.get('action')))
        nsteps = sum(len(r['steps']) for r in good)
        ndel = sum(len(s['delivered']) for r in good for s in r['steps'])
        out('  [code->spec] %d fault histories on real TCPTransport objects (%d observed states, %d message deliveries) validated by TLC; formula failures: %d'
            % (len(good), nsteps, ndel, len(viols)))
        ev.mc, ev.traces, ev.steps = [st], len(good), nsteps
        ev.distinct_actions = len({json.dumps([s['a'], [(p['dstate'], p['areg'], p['dsock'], p['asock']) for p in s['pairs']]]) for r in good for s in r['steps']})
        ev.sample_traces = [('seed %s' % good[0]['seed'], [json.dumps(good[0]['steps'][10])[:400]])] if good else []
        kf = findings.load()
        reported, known, seen = [], {}, set()
        for v in viols:
            k = findings.match(kf, prop, v)
            if k is not None:
                known[k['id']] = k
                continue
            key = tuple(sorted(v['names']))
            if key in seen:
                continue
            seen.add(key)
            d = os.environ.get('VERIF_REPLAY_DIR') or os.path.join(tlc.ROOT, 'replays')
            os.makedirs(d, exist_ok=True)
            body = {'engine': 'transport', 'property': prop, 'formulas': v['names'], 'seed': v['seed']}
            path = os.path.join(d, '%s-%s.json' % (prop, hashlib.sha1(json.dumps(body, sort_keys=True).encode()).hexdigest()[:10]))
            json.dump(body, open(path, 'w'))
            reported.append((v, path))
        for k in known.values():
            out('KNOWN-FINDING: property=%s %s' % (prop, k['what']))
        ev.known, ev.violations, ev.machinery, ev.wall = sorted(known), len(reported), machinery, time.time() - t0
        ev.write()
        for v, path in reported[:4]:
            out('VIOLATION property=%s replay=%s' % (prop, path))
            out('  formula(s) %s false at state %d (%s) of fault history seed %s' % (v['names'], v['step'], v.get('action'), v['seed']))
        if reported:
            return 1
        if machinery:
            for m in machinery[:4]:
                out('MACHINERY-FAILURE: ' + m)
            return 2
        return 0
    finally:
        shutil.rmtree(workdir, ignore_errors=True)


def replay(path, out=print):
    body = json.load(open(path))
    tr = run_case(body['seed'])
    wd = tlc.scratch('verif_replayx_')
    try:
        r = validate([tr], wd, 'replay')
        hit = [x for x in r['viol'] if set(x.get('names', [])) & set(body['formulas'])]
        for x in r['viol'][:10]:
            out('  state %d %s: %s' % (x['l'], x.get('action'), x.get('names')))
        if hit:
            out('VIOLATION property=%s replay=%s' % (body['property'], path))
            return 1
        out('no formula of %s fails on this fault history' % body['property'])
        return 0
    finally:
        shutil.rmtree(wd, ignore_errors=True)

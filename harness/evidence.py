"""evidence/<id>.json writer (schema: /root/.vp/EVIDENCE.schema.json); every number is measured by the run."""
import os, json, time

ROOT = os.path.dirname(os.path.dirname(os.path.abspath(__file__)))


class Evidence(object):
    def __init__(self, prop, tier, seed, level):
        self.prop, self.tier, self.seed, self.level = prop, tier, seed, level
        self.mc = []
        self.traces = 0
        self.steps = 0
        self.drift = []
        self.sample_traces = []
        self.distinct_actions = 0
        self.pending_schedules = []
        self.known = []
        self.violations = 0
        self.machinery = []
        self.wall = 0.0
        self.extra = {}
        self.assumptions = []
        self.sim_skipped = 0

    def add_pending_schedule(self, s):
        self.pending_schedules.append(s)

    def write(self):
        states = sum(m.get('distinct', 0) for m in self.mc)
        trans = sum(m.get('generated', 0) for m in self.mc)
        cov = {
            'states': states,
            'transitions': trans,
            'traces_validated_against_impl': self.traces,
            'samples': [{'source': s, 'schedule_prefix': a} for (s, a) in self.sample_traces] or [{'note': 'no trace recorded'}],
            'impl_steps_validated': self.steps,
            'evaluations': self.steps,
            'distinct_nontrivial': self.distinct_actions,
            'rule': 'one evaluation = one step of a real SyncObj cluster whose projected state was compared with the '
                    'specification and on which every property formula was evaluated by TLC; distinct_nontrivial counts '
                    'distinct (action, set of nodes whose state changed) pairs among them',
            'exhaustive': bool(self.mc) and all(m.get('completed') for m in self.mc),
            'model_checking_runs': [{k: m.get(k) for k in ('cfg', 'distinct', 'generated', 'depth', 'completed', 'timeout', 'violated', 'wall')} for m in self.mc],
            'conformance': {'drift_steps': len(self.drift), 'first_drifts': self.drift[:5],
                            'simulator_actions_skipped_on_code': self.sim_skipped},
            'known_findings_hit': self.known,
            'machinery_failures': self.machinery,
        }
        cov.update(self.extra)
        body = {'property_id': self.prop, 'tier': self.tier, 'seed': int(self.seed), 'level': self.level,
                'coverage': cov, 'assumptions': self.assumptions, 'wall_s': round(self.wall, 2),
                'violations': self.violations}
        d = os.environ.get('VERIF_EVIDENCE_DIR') or os.path.join(ROOT, 'evidence')
        os.makedirs(d, exist_ok=True)
        with open(os.path.join(d, self.prop + '.json'), 'w') as f:
            json.dump(body, f, indent=1)
        return body

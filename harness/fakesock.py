"""Scripted non-blocking sockets, a poller and a tiny TCP "kernel" for driving the real TCPTransport / TcpServer /
TcpConnection classes (C14) without the operating system.  Semantics follow kernel TCP, not wishful thinking:
  - connect() towards a black-holed peer stays in progress until the path heals; towards a port nobody listens on it
    fails (ERROR event, SO_ERROR = ECONNREFUSED);
  - an established connection over a black-holed path delivers nothing and reports nothing;
  - a reset gives both ends an ERROR event; close() gives the peer end-of-file (recv == b'') if the path is up;
  - a half-open connection (a middlebox lost its state): one end gets an error, the other end notices nothing until
    its own timeout - what it sends vanishes.
Time is virtual (FakeNet.now); nothing sleeps."""
import errno, socket as _real


class FakeNet(object):
    def __init__(self):
        self.now = 0.0
        self.listeners = {}        # port -> FakeSocket (listening)
        self.socks = {}            # fd -> FakeSocket
        self.next_fd = 100
        self.next_conn = 1
        self.blackhole = set()     # frozenset({owner_a, owner_b})
        self.conns = {}            # conn id -> [dial sock, accept sock]
        self.owner_of_port = {}
        self.netdown = set()       # owners whose connect() fails synchronously (interface / route down)

    def path_up(self, a, b):
        return frozenset((a, b)) not in self.blackhole

    def new_fd(self):
        self.next_fd += 1
        return self.next_fd


class FakeSocket(object):
    def __init__(self, net, owner):
        self.net, self.owner = net, owner
        self.fd = net.new_fd()
        net.socks[self.fd] = self
        self.state = 'new'          # new | listen | syn | est | closed
        self.rx = b''
        self.fin = False            # peer closed
        self.err = 0                # pending socket error
        self.peer = None
        self.accept_q = []
        self.port = None
        self.target = None
        self.conn_id = 0
        self.role = None            # 'd' dialer side / 'a' acceptor side
        self.t_data = net.now       # when this end last received bytes (or was created / established)

    # -- API used by the library
    def fileno(self):
        return self.fd

    def setsockopt(self, *a):
        pass

    def setblocking(self, f):
        pass

    def ioctl(self, *a):
        pass

    def getsockopt(self, level, opt):
        if opt == _real.SO_ERROR:
            e, self.err = self.err, 0
            return e
        return 0

    def bind(self, addr):
        port = addr[1]
        if port in self.net.listeners and self.net.listeners[port].state == 'listen':
            raise _real.error(errno.EADDRINUSE, 'in use')
        self.port = port

    def listen(self, n):
        self.state = 'listen'
        self.net.listeners[self.port] = self

    def accept(self):
        if not self.accept_q:
            raise _real.error(errno.EAGAIN, 'EAGAIN')
        s = self.accept_q.pop(0)
        return s, ('127.0.0.1', 0)

    def connect(self, addr):
        if self.owner in self.net.netdown:
            # no route / interface down: connect() fails at once (not EINPROGRESS)
            raise _real.error(errno.ENETUNREACH, 'network is unreachable')
        self.target = addr[1]
        self.state = 'syn'
        self.role = 'd'
        self.conn_id = self.net.next_conn
        self.net.next_conn += 1
        self.net.conns[self.conn_id] = [self, None]
        self._try_complete()
        raise _real.error(errno.EINPROGRESS, 'in progress')

    def _try_complete(self):
        """the handshake completes when the path is up and somebody listens; refused when nobody listens"""
        if self.state != 'syn':
            return
        tgt_owner = self.net.owner_of_port.get(self.target)
        if tgt_owner is not None and not self.net.path_up(self.owner, tgt_owner):
            return                                  # SYNs vanish: stays in progress
        lst = self.net.listeners.get(self.target)
        if lst is None or lst.state != 'listen':
            self.err = errno.ECONNREFUSED
            self.state = 'refused'
            return
        peer = FakeSocket(self.net, lst.owner)
        peer.state, peer.peer, peer.role, peer.conn_id = 'est', self, 'a', self.conn_id
        self.peer = peer
        self.state = 'est'
        self.t_data = peer.t_data = self.net.now
        self.net.conns[self.conn_id][1] = peer
        lst.accept_q.append(peer)

    def send(self, data):
        if self.state in ('closed', 'refused') or self.err:
            raise _real.error(errno.ECONNRESET, 'reset')
        if self.state != 'est':
            raise _real.error(errno.EAGAIN, 'EAGAIN')
        p = self.peer
        if p is not None and p.state == 'est' and self.net.path_up(self.owner, p.owner):
            p.rx += data
            p.t_data = self.net.now
        # else: the kernel accepts the bytes; they are never delivered
        return len(data)

    def recv(self, n):
        if self.err:
            e, self.err = self.err, 0
            raise _real.error(e, 'error')
        if self.rx:
            d, self.rx = self.rx[:n], self.rx[n:]
            return d
        if self.fin:
            return b''
        raise _real.error(errno.EAGAIN, 'EAGAIN')

    def close(self):
        if self.state == 'listen':
            if self.net.listeners.get(self.port) is self:
                del self.net.listeners[self.port]
        p = self.peer
        if self.state == 'est' and p is not None and p.state == 'est' and self.net.path_up(self.owner, p.owner) \
                and not getattr(self, 'silent_close', False):
            p.fin = True
        self.state = 'closed'

    def ready(self, mask):
        """level-triggered readiness: READ=1 WRITE=2 ERROR=4"""
        ev = 0
        if self.state == 'listen':
            return 1 if (self.accept_q and mask & 1) else 0
        if self.state == 'refused' or self.err:
            return 4 if mask & 4 else (1 if mask & 1 else 0)
        if self.state == 'syn':
            self._try_complete()
            if self.state == 'refused':
                return 4 if mask & 4 else 0
        if self.state == 'est':
            if (self.rx or self.fin) and mask & 1:
                ev |= 1
            if mask & 2:
                ev |= 2
        return ev


class FakePoller(object):
    def __init__(self, net):
        self.net = net
        self.subs = {}

    def subscribe(self, descr, callback, mask):
        self.subs[descr] = (callback, mask)

    def unsubscribe(self, descr):
        self.subs.pop(descr, None)

    def poll(self, timeout=0):
        for fd in list(self.subs):
            if fd not in self.subs:
                continue
            cb, mask = self.subs[fd]
            s = self.net.socks.get(fd)
            if s is None:
                continue
            ev = s.ready(mask)
            if ev:
                cb(fd, ev)


def socket_module(net, owner_getter):
    """a stand-in for the `socket` module inside pysyncobj.tcp_connection / tcp_server"""
    class _Mod(object):
        error = _real.error
        errno = errno

        def __getattr__(self, name):
            return getattr(_real, name)

        def socket(self, *a, **kw):
            return FakeSocket(net, owner_getter())
    return _Mod()

"""known_findings.json: genuine defects recorded rather than repaired, and the log of repaired ones.

An entry with status "known" suppresses exactly the violations that match its signature:
  property, formula name, and a small predicate over the violating step (action kind and, optionally,
  the scenario family).  Entries with status "fixed" suppress nothing."""
import os, json

ROOT = os.path.dirname(os.path.dirname(os.path.abspath(__file__)))
PATH = os.path.join(ROOT, 'known_findings.json')


def load():
    if not os.path.isfile(PATH):
        return []
    return json.load(open(PATH)).get('findings', [])


def match(kf, prop, v):
    """A formula name carrying a '#KFn' suffix was classified BY THE SPECIFICATION as an instance of the
    recorded finding KFn (the signature predicate lives next to the formula in Props.tla).  It is suppressed
    only while known_findings.json lists KFn with status "known" for this property."""
    tagged = [n for n in v.get('names', []) if '#' in n]
    plain = [n for n in v.get('names', []) if '#' not in n]
    if tagged and not plain:
        ids = {n.split('#', 1)[1] for n in tagged}
        hits = [k for k in kf if k.get('status') == 'known' and k.get('id') in ids and k.get('property') == prop]
        if len(hits) == len(ids):
            return hits[0]
        return None
    for k in kf:
        if k.get('status') != 'known' or k.get('property') != prop:
            continue
        sig = k.get('signature', {})
        if sig.get('formula') and sig['formula'] not in v.get('names', []):
            continue
        if sig.get('action_kind') and not str(v.get('action', '')).startswith('<<"%s"' % sig['action_kind']):
            continue
        if sig.get('source_prefix') and not str(v.get('source', '')).startswith(sig['source_prefix']):
            continue
        if sig.get('requires') and not all(r in v.get('tags', []) for r in sig['requires']):
            continue
        return k
    return None

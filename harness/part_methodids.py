"""C17 (ids): spec/MethodIds.tla enumerates (old code, new code) pairs; for every pair real classes with versioned
replicated methods on the object and on consumers are generated, real SyncObj objects are built from them, and the
ids the library assigns are compared with the model's ranks (and old ids with new ids)."""
import os, sys, json, time

from . import tlc


def _gen_classes(methods):
    """methods: list of {ver, cons, name}; returns (SyncObj subclass, [consumer classes])"""
    from pysyncobj import SyncObj, SyncObjConsumer, replicated
    ncons = max([m['cons'] for m in methods] + [0])
    srcs = []
    ns = {'SyncObj': SyncObj, 'SyncObjConsumer': SyncObjConsumer, 'replicated': replicated}

    def body(c):
        lines = []
        for m in sorted((x for x in methods if x['cons'] == c), key=lambda x: (x['name'], x['ver'])):
            lines.append('    @replicated(ver=%d)\n    def f%s(self):\n        return %d\n' % (m['ver'], 'ab'[m['name'] - 1], m['ver']))
        return ''.join(lines) or '    pass\n'
    src = 'class Gen0(SyncObj):\n' + body(0)
    for c in range(1, ncons + 1):
        src += 'class Gen%d(SyncObjConsumer):\n' % c + body(c)
    exec(src, ns)
    return ns['Gen0'], [ns['Gen%d' % c] for c in range(1, ncons + 1)]


def real_ids(methods):
    from pysyncobj import SyncObjConf
    from pysyncobj.node import Node
    from pysyncobj.transport import Transport
    cls0, conscls = _gen_classes(methods)
    consumers = [c() for c in conscls]
    o = cls0(Node('x'), [], SyncObjConf(autoTick=False), consumers=consumers, transport=Transport(None, None, None), nodeClass=Node)
    ids = {}
    for k, v in o._methodToID.items():
        if isinstance(k, tuple):
            ci = [id(c) for c in consumers].index(k[0]) + 1
            nm = k[1]
        else:
            ci, nm = 0, k
        if '_v' not in nm:
            # a name that is not a versioned implementation has been given an id of its own: reported, never a crash
            ids[('unexpected', ci, nm)] = v
            continue
        base, ver = nm.rsplit('_v', 1)
        ids[(int(ver), ci, 'ab'.index(base[1]) + 1)] = v
    try:
        o._doDestroy()
    except Exception:
        pass
    return ids


def model_ids(methods):
    ms = sorted((m['ver'], m['cons'], m['name']) for m in methods)
    return {m: i for i, m in enumerate(ms)}


def run(workdir, tier, out):
    rc, o, wall = tlc.run_tlc('MethodIds.tla', os.path.join(tlc.SPEC_DIR, 'methodids.cfg'), workdir, workers=1, timeout=600, heap='4g')
    st = tlc.parse_stats(o)
    st.update(cfg='methodids.cfg', wall=wall)
    pairs = []
    for ln in o.split('\n'):
        ln = ln.strip()
        if ln.startswith('"{') and ln.endswith('}"'):
            try:
                pairs.append(json.loads(json.loads(ln)))
            except Exception:
                pass
    bad, machinery = [], []
    if not st['completed']:
        machinery.append('MethodIds.tla: ' + (st.get('error') or o[-300:]))
    step = 1 if tier == 'thorough' else 3
    checked = 0
    cache = {}

    def rid(ms):
        key = json.dumps(sorted((m['ver'], m['cons'], m['name']) for m in ms))
        if key not in cache:
            cache[key] = real_ids(ms)
        return cache[key]
    for p in pairs[::step]:
        ro, rn = rid(p['old']), rid(p['new'])
        mo, mn = model_ids(p['old']), model_ids(p['new'])
        checked += 1
        if ro != mo or rn != mn:
            bad.append({'kind': 'ids-differ-from-model', 'old': p['old'], 'new': p['new'], 'real_old': {str(k): v for k, v in ro.items()}})
        elif any(rn.get(m) != ro[m] for m in ro):
            bad.append({'kind': 'ids-not-stable', 'old': p['old'], 'new': p['new']})
    out('  [spec] MethodIds.tla: %d (old code, new code) pairs, IdsStable holds: %s; [spec->code] %d pairs built as real classes: %d disagree'
        % (len(pairs), st['completed'], checked, len(bad)))
    return st, checked, bad, machinery

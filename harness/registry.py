"""property id -> engine"""
import json


def run(prop, tier, seed):
    from . import engine_core
    if prop in engine_core.PROPS:
        return engine_core.run(prop, tier, seed)
    if prop == 'C08':
        from . import engine_journal
        return engine_journal.run(prop, tier, seed)
    if prop == 'C11':
        from . import engine_chunking
        return engine_chunking.run(prop, tier, seed)
    if prop == 'C13':
        from . import engine_framing
        return engine_framing.run(prop, tier, seed)
    if prop == 'C20':
        from . import engine_fallback
        return engine_fallback.run(prop, tier, seed)
    if prop == 'C16':
        from . import engine_locks
        return engine_locks.run(prop, tier, seed)
    if prop == 'C19':
        from . import engine_threads
        return engine_threads.run(prop, tier, seed)
    if prop == 'C14':
        from . import engine_transport
        return engine_transport.run(prop, tier, seed)
    if prop == 'C15':
        from . import engine_batteries
        return engine_batteries.run(prop, tier, seed)
    print('no engine registered for', prop)
    return 2


def replay(path):
    eng = json.load(open(path)).get('engine', 'core')
    if eng == 'core':
        from . import engine_core
        return engine_core.replay(path)
    if eng == 'journal':
        from . import engine_journal
        return engine_journal.replay(path)
    if eng == 'chunking':
        from . import engine_chunking
        return engine_chunking.replay(path)
    if eng == 'framing':
        from . import engine_framing
        return engine_framing.replay(path)
    if eng == 'fallback':
        from . import engine_fallback
        return engine_fallback.replay(path)
    if eng == 'locks':
        from . import engine_locks
        return engine_locks.replay(path)
    if eng == 'threads':
        from . import engine_threads
        return engine_threads.replay(path)
    if eng == 'transport':
        from . import engine_transport
        return engine_transport.replay(path)
    if eng == 'batteries':
        from . import engine_batteries
        return engine_batteries.replay(path)
    raise SystemExit('unknown engine ' + eng)

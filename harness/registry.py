"""property id -> engine"""


def run(prop, tier, seed):
    from . import engine_core
    if prop in engine_core.PROPS:
        return engine_core.run(prop, tier, seed)
    print('no engine registered for', prop)
    return 2

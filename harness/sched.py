"""Schedules: random scheduler over the real cluster, schedule execution, trace files."""
import random, json, os, sys
from . import simcluster as sc


class Weights(dict):
    pass


DEFAULT_W = dict(tick_z=6, tick_h=10, tick_m=0.3, tick_j=1.2, deliver=30, submit=4, brk=0.7, notice=2.0,
                 connect=3.0, compact=0.0)


def random_action(cl, rng, w, state):
    """pick one applicable action according to weights; state carries the command counter"""
    N = cl.nodes
    ids = [n for n in N if N[n].alive]
    cands = []
    for k in ('tick_z', 'tick_h', 'tick_m', 'tick_j'):
        if w.get(k, 0) > 0:
            cands.append((w[k], ('Tick', None, k[-1])))
    chans = [(i, j) for (i, j), q in cl.net.chan.items() if q and N[j].alive]
    if chans and w.get('deliver', 0) > 0:
        cands.append((w['deliver'], ('Deliver',)))
    if w.get('submit', 0) > 0 and state['ncmd'] < state['maxcmd']:
        cands.append((w['submit'], ('Submit',)))
    alive_pairs = [tuple(sorted(p)) for p in cl.net.alive]
    if alive_pairs and w.get('brk', 0) > 0:
        cands.append((w['brk'], ('Break',)))
    unnoticed = [(i, j) for (i, j) in cl.net.up if cl.net.pair(i, j) not in cl.net.alive and N[i].alive]
    if unnoticed and w.get('notice', 0) > 0:
        cands.append((w['notice'], ('Notice',)))
    connectable = []
    if w.get('connect', 0) > 0:
        for i in ids:
            for j in ids:
                if cl.applicable(('Connect', i, j)):
                    connectable.append((i, j))
        if connectable:
            cands.append((w['connect'], ('Connect',)))
    if w.get('compact', 0) > 0:
        cands.append((w['compact'], ('Compact',)))
    tot = sum(c[0] for c in cands)
    r = rng.random() * tot
    for wt, a in cands:
        r -= wt
        if r <= 0:
            break
    k = a[0]
    if k == 'Tick':
        return ('Tick', rng.choice(ids), a[2])
    if k == 'Deliver':
        return ('Deliver',) + rng.choice(sorted(chans))
    if k == 'Submit':
        state['ncmd'] += 1
        cid = 'c%d' % state['ncmd']
        kinds = state.get('kinds', [('op', 1.0)])
        kk = rng.choices([x[0] for x in kinds], [x[1] for x in kinds])[0]
        spec = {'kind': kk}
        if kk in ('add', 'rem'):
            spec['x'] = rng.choice(state['memb_targets'])
        if kk == 'ver':
            spec['v'] = rng.choice([0, 1, 2])
        if kk == 'op' and state.get('pads'):
            spec['pad'] = rng.choice(state['pads'])
        if rng.random() < state.get('nocb', 0.0):
            spec['cb'] = False
        return ('Submit', rng.choice(ids), cid, spec)
    if k == 'Break':
        return ('Break',) + rng.choice(sorted(alive_pairs))
    if k == 'Notice':
        return ('Notice',) + rng.choice(sorted(unnoticed))
    if k == 'Connect':
        return ('Connect',) + rng.choice(sorted(connectable))
    if k == 'Compact':
        return ('Compact', rng.choice(ids))
    raise AssertionError(a)


def run_random(cfg, seed, steps, weights=None, maxcmd=12, extra=None):
    rng = random.Random(seed)
    w = dict(DEFAULT_W)
    if weights:
        w.update(weights)
    cl = sc.Cluster(cfg)
    trace = [cl.initial_record()]
    state = {'ncmd': 0, 'maxcmd': maxcmd}
    if extra:
        state.update(extra)
    try:
        for _ in range(steps):
            act = random_action(cl, rng, w, state)
            if not cl.applicable(act):
                continue
            trace.append(cl.step(act))
    finally:
        cl.close()
    return trace


def run_schedule(cfg, schedule):
    """execute a given list of actions; inapplicable ones are skipped (and logged as such)"""
    cl = sc.Cluster(cfg)
    trace = [cl.initial_record()]
    skipped = 0
    try:
        for act in schedule:
            act = tuple(act)
            if not cl.applicable(act):
                skipped += 1
                continue
            trace.append(cl.step(act))
    finally:
        cl.close()
    return trace, skipped


def write_trace(path, cfg, trace, meta=None):
    with open(path, 'w') as f:
        json.dump({'cfg': cfg, 'meta': meta or {}, 'steps': trace}, f, separators=(',', ':'))

"""Schedules: random scheduler over the real cluster, schedule execution, trace files."""
import random, json, os, sys
from . import simcluster as sc


class Weights(dict):
    pass


DEFAULT_W = dict(tick_z=6, tick_h=10, tick_m=0.3, tick_j=1.2, deliver=30, submit=4, brk=0.7, notice=2.0,
                 connect=3.0, compact=0.0)


def random_action(cl, rng, w, state):
    """pick one applicable action according to weights; state carries the command counter"""
    N = cl.nodes
    ids = [n for n in N if N[n].alive]
    cands = []
    for k in ('tick_z', 'tick_h', 'tick_m', 'tick_j'):
        if w.get(k, 0) > 0 and ids:
            cands.append((w[k], ('Tick', None, k[-1])))
    held = getattr(cl, 'script_held', set())
    # a held channel is not dead, just very slow: now and then one of its messages gets through
    chans = [(i, j) for (i, j), q in cl.net.chan.items() if q and N[j].alive and ((i, j) not in held or rng.random() < 0.04)]
    if chans and w.get('deliver', 0) > 0:
        cands.append((w['deliver'], ('Deliver',)))
    if w.get('submit', 0) > 0 and state['ncmd'] < state['maxcmd'] and ids:
        cands.append((w['submit'], ('Submit',)))
    alive_pairs = [tuple(sorted(p)) for p in cl.net.alive]
    if alive_pairs and w.get('brk', 0) > 0:
        cands.append((w['brk'], ('Break',)))
    unnoticed = [(i, j) for (i, j) in cl.net.up if cl.net.pair(i, j) not in cl.net.alive and N[i].alive]
    if unnoticed and w.get('notice', 0) > 0:
        cands.append((w['notice'], ('Notice',)))
    connectable = []
    if w.get('connect', 0) > 0:
        for i in ids:
            for j in ids:
                if cl.applicable(('Connect', i, j)):
                    connectable.append((i, j))
        if connectable:
            cands.append((w['connect'], ('Connect',)))
    if w.get('compact', 0) > 0 and ids:
        cands.append((w['compact'], ('Compact',)))
    startable = [n for n in N if not N[n].alive and N[n].voter]
    if w.get('start', 0) > 0 and startable and ids:
        cands.append((w['start'], ('Start',)))
    if w.get('stop', 0) > 0 and len(ids) > 1:
        cands.append((w['stop'], ('Stop',)))
    running_children = [n for n in ids if N[n].child.get('st') == 'run']
    if running_children and w.get('childdone', 0) > 0:
        cands.append((w['childdone'], ('ChildDone',)))
    if running_children and w.get('childkill', 0) > 0:
        cands.append((w['childkill'], ('ChildKill',)))
    restartable = [n for n in N if not N[n].alive and N[n].generation > 0 and cl.cfg.get('journal')]
    if w.get('crash', 0) > 0 and ids and cl.cfg.get('journal'):
        cands.append((w['crash'], ('Crash',)))
    if w.get('killat', 0) > 0 and ids and cl.cfg.get('journal'):
        cands.append((w['killat'], ('KillAt',)))
    if w.get('restart', 0) > 0 and restartable:
        cands.append((w['restart'], ('Restart',)))
    tot = sum(c[0] for c in cands)
    r = rng.random() * tot
    for wt, a in cands:
        r -= wt
        if r <= 0:
            break
    k = a[0]
    if k == 'Tick':
        return ('Tick', rng.choice(ids), a[2])
    if k == 'Deliver':
        d = ('Deliver',) + rng.choice(sorted(chans))
        if cl.cfg.get('journal') and w.get('killat', 0) > 0 and rng.random() < 0.06 and _writes_likely(cl, d):
            # the receiver is killed at one of the storage writes of this very delivery
            return ('KillAt', d[2], rng.choice([1, 1, 2, 2, 3, 4]), list(d))
        return d
    if k == 'Submit':
        state['ncmd'] += 1
        kinds = state.get('kinds', [('op', 1.0)])
        kk = rng.choices([x[0] for x in kinds], [x[1] for x in kinds])[0]
        # the kind is visible in the id, so that sets of ids (Raisers, SpecialCids) mean the same in every trace
        cid = {'op': 'c', 'boom': 'x', 'add': 'm', 'rem': 'm', 'ver': 'v', 'vop': 'w', 'sad': 's', 'srm': 's'}[kk] + str(state['ncmd'])
        spec = {'kind': kk}
        if kk in ('add', 'rem'):
            spec['x'] = rng.choice(state['memb_targets'])
        if kk in ('sad', 'srm'):
            spec['x'] = rng.choice(['1', '2'])
        if kk == 'ver':
            spec['v'] = rng.choice([0, 1, 2, 2, 5, 11, 11, 12])
        if kk == 'op' and state.get('sizes'):
            spec['size'] = rng.choice(state['sizes'])
        if kk == 'op' and state.get('pads'):
            spec['pad'] = rng.choice(state['pads'])
        if rng.random() < state.get('nocb', 0.0):
            spec['cb'] = False
        at = rng.choice(ids)
        iso = getattr(cl, 'script_isolated', None)
        if iso in ids and rng.random() < w.get('submit_iso', state.get('submit_at_isolated', 0.0)):
            at = iso
        return ('Submit', at, cid, spec)
    if k == 'Break':
        return ('Break',) + rng.choice(sorted(alive_pairs))
    if k == 'Notice':
        return ('Notice',) + rng.choice(sorted(unnoticed))
    if k == 'Connect':
        return ('Connect',) + rng.choice(sorted(connectable))
    if k == 'Compact':
        iso = getattr(cl, 'script_isolated', None)
        bias = w.get('compact_iso', state.get('compact_at_isolated', 0.0))     # per phase (weights) or per run
        if iso in ids and bias < 0 and len(ids) > 1:
            return ('Compact', rng.choice([x for x in ids if x != iso]))
        if iso in ids and rng.random() < bias:
            return ('Compact', iso)
        return ('Compact', rng.choice(ids))
    if k == 'ChildDone':
        return ('ChildDone', rng.choice(sorted(running_children)))
    if k == 'ChildKill':
        return ('ChildKill', rng.choice(sorted(running_children)), rng.choice([1, 1, 2, 3, 5]))
    if k == 'Crash':
        return ('Crash', rng.choice(ids))
    if k == 'Restart':
        return ('Restart', rng.choice(sorted(restartable)))
    if k == 'KillAt':
        # a step of some node that is killed at its kw-th primitive storage write; steps that do write to storage
        # (a follower storing entries or snapshot data, a leader appending what was submitted to it) are preferred
        cands = []
        for _ in range(8):
            inner = random_action(cl, rng, dict(w, killat=0, crash=0, restart=0, brk=0, connect=0, start=0, stop=0), state)
            actor = cl._actor(inner)
            if actor is not None and cl.applicable(inner):
                cands.append((actor, inner))
        for (i, j), q in sorted(cl.net.chan.items()):
            if q and j in N and N[j].alive and cl.applicable(('Deliver', i, j)) and _writes_likely(cl, ('Deliver', i, j)):
                cands.append((j, ('Deliver', i, j)))
        writers = [c for c in cands if _writes_likely(cl, c[1])]
        if writers and rng.random() < 0.7:
            cands = writers
        if cands:
            actor, inner = rng.choice(cands)
            return ('KillAt', actor, rng.choice([1, 1, 2, 2, 3, 4, 5, 7]), list(inner))
        return ('Crash', rng.choice(ids))
    if k == 'Start':
        # operator discipline: a fresh process is given the member list some running voter currently has
        n = rng.choice(sorted(startable))
        vs = [v for v in ids if N[v].voter]
        v = rng.choice(sorted(vs)) if vs else None
        if v is None:
            return ('Compact', rng.choice(ids))
        members = sorted(set(x.id for x in N[v].obj.otherNodes) | {v, n})
        return ('Start', n, members)
    if k == 'Stop':
        # operator discipline: only a node whose removal has committed is shut down
        removed = state.get('removed_ok', [])
        cand = [n for n in ids if n in removed]
        if not cand:
            return ('Compact', rng.choice(ids))
        return ('Stop', rng.choice(sorted(cand)))
    raise AssertionError(a)


def _writes_likely(cl, act):
    try:
        if act[0] == 'Deliver':
            import pysyncobj.pickle as sopickle
            q = cl.net.chan.get((act[1], act[2])) or []
            d = q[0].data
            if d == sc.HELLO:
                return False
            m = sopickle.loads(d)
            return m.get('type') == 'append_entries' and bool(m.get('entries') or m.get('serialized'))
        if act[0] == 'Tick':
            o = cl.nodes[act[1]].obj
            return o._isLeader() and not getattr(o, '_SyncObj__commandsQueue').empty()
    except Exception:
        return False
    return False


def run_random(cfg, seed, steps, weights=None, maxcmd=12, extra=None):
    """seeded random schedule.  extra['phases'] = [[steps, weight overrides, [scripted actions]], ...] optionally
    splits the run into phases; scripted actions use the placeholders of _script (e.g. ["isolate", "c"])."""
    rng = random.Random(seed)
    w = dict(DEFAULT_W)
    if weights:
        w.update(weights)
    cl = sc.Cluster(cfg)
    trace = [cl.initial_record()]
    state = {'ncmd': 0, 'maxcmd': maxcmd}
    if extra:
        state.update(extra)
    phases = state.get('phases') or [[steps, {}, []]]
    try:
        for (psteps, pw, script) in phases:
            ww = dict(w)
            ww.update(pw)
            for item in script:
                if item[0] == 'quiet':
                    quiet_phase(cl, rng, trace, state, rounds=item[1], ncmds=item[2] if len(item) > 2 else 3, minus=item[3] if len(item) > 3 else None)
                    continue
                if item[0] == 'boot':
                    boot_phase(cl, rng, trace, state)
                    continue
                if item[0] == 'oldreq':
                    oldreq_phase(cl, rng, trace, state)
                    continue
                if item[0] == 'relead':
                    relead_phase(cl, rng, trace, state)
                    continue
                if item[0] == 'shrink':
                    shrink_phase(cl, rng, trace, state)
                    continue
                if item[0] == 'votenew':
                    votenew_phase(cl, rng, trace, state)
                    continue
                if item[0] == 'splitvote':
                    splitvote_phase(cl, rng, trace, state)
                    continue
                if item[0] == 'reelect':
                    reelect_phase(cl, rng, trace, state, variant=item[1] if len(item) > 1 else None)
                    continue
                for act in _script(cl, [item], rng):
                    if cl.applicable(act):
                        trace.append(cl.step(act))
            votes = {}
            for _ in range(psteps):
                act = random_action(cl, rng, ww, state)
                if not cl.applicable(act):
                    continue
                trace.append(cl.step(act))
                # a follower killed while it stored entries: what it had put on the wire before it died arrives, the leader
                # counts it, the follower comes back (whatever it acknowledged must be in its journal)
                if act[0] == 'KillAt' and act[3][0] == 'Deliver' and rng.random() < 0.6:
                    f, l = act[1], act[3][1]
                    for _k in range(6):
                        a2 = ('Deliver', f, l)
                        if not cl.applicable(a2):
                            break
                        trace.append(cl.step(a2))
                    for a2 in (('Tick', l, 'z'), ('Restart', f), ('Tick', f, 'z'), ('Tick', f, 'h')):
                        if cl.applicable(a2):
                            trace.append(cl.step(a2))
                # a process that dies right after it granted a vote (what it promised must be on disk by then)
                if act[0] == 'Deliver' and cfg.get('journal') and ww.get('crash', 0) > 0:
                    u = trace[-1].get('upd', {}).get(act[2])
                    if u and u.get('alive'):
                        v = (u.get('term'), u.get('votedFor'))
                        if v != votes.get(act[2]) and u.get('votedFor') not in (None, sc.NIL) and rng.random() < 0.3:
                            c = ('Crash', act[2])
                            if cl.applicable(c):
                                trace.append(cl.step(c))
                        votes[act[2]] = v
    finally:
        cl.close()
    return trace


def quiet_phase(cl, rng, trace, state, rounds=30, ncmds=3, minus=None):
    rounds = max(rounds, 24)
    """faults stop: every link is healed, every running node ticks timely, every message is delivered; when no
    leader is known one node's election timer fires first (the counterpart of randomised timeouts).  Ends with an
    Assert step on which the trace specification evaluates the convergence formula (C05)."""
    N = cl.nodes

    def do(act):
        if cl.applicable(act):
            trace.append(cl.step(act))
    cl.script_held = set()
    ids = sorted(n for n in N if N[n].alive)
    if minus:
        # the property asks for a connected MAJORITY only: a minority of the voters (the current leader first, when
        # minus == 'leader') stays cut off for the whole quiet period and is frozen; the others must converge without it
        vs = [n for n in ids if N[n].voter]
        nconf = len(cl.cfg.get('voters', vs))
        kmax = len(vs) - (nconf // 2 + 1)
        cut = []
        if kmax > 0:
            ls = sorted(((N[n].obj.raftCurrentTerm, n) for n in vs if N[n].obj._isLeader()), reverse=True)
            if minus == 'leader' and ls:
                cut.append(ls[0][1])
            k = rng.randint(1, kmax)
            rest = [n for n in vs if n not in cut]
            rng.shuffle(rest)
            cut = (cut + rest)[:k]
        for x in cut:
            for m in sorted(N):
                if m != x:
                    do(('Break', x, m))
                    do(('Notice', x, m))
                    do(('Notice', m, x))
        ids = [n for n in ids if n not in cut]
    for i in ids:
        for j in ids:
            if i != j:
                do(('Notice', i, j))
    for i in ids:
        for j in ids:
            if i != j:
                do(('Connect', i, j))

    def deliver_all():
        for _ in range(400):
            chans = sorted((i, j) for (i, j), q in cl.net.chan.items() if q and j in N and N[j].alive)
            if not chans:
                return
            for (i, j) in chans:
                do(('Deliver', i, j))
    deliver_all()
    voters = [n for n in ids if N[n].voter]
    turn = rng.randrange(len(voters)) if voters else 0
    for r in range(rounds):
        for n in ids:
            do(('Tick', n, 'h'))
        deliver_all()
        if r == rounds // 2:
            for k in range(ncmds):
                do(('Submit', rng.choice(ids), 'q%d' % (k + 1), {'kind': 'op'}))
        leaders = [n for n in voters if N[n].obj._isLeader()]
        followers_ok = all(N[n].obj._getLeader() is not None for n in ids)
        if r % 3 == 2 and (not leaders or not followers_ok) and voters:
            do(('Tick', voters[turn % len(voters)], 'j'))
            turn += 1
            deliver_all()
    # a follower whose long stale tail is taken back one entry per round trip needs as many rounds as the tail is long:
    # slow, but not stuck - keep the quiet period going while the cluster is still making progress
    def behind():
        ap = [N[n].obj.raftLastApplied for n in ids if N[n].alive]
        return max(ap) - min(ap) if ap else 0
    extra, last_gap, stalled = 0, None, 0
    while extra < 5 * rounds and stalled < 12 and (behind() > 0 or len([n for n in voters if N[n].obj._isLeader()]) != 1):
        for n in ids:
            do(('Tick', n, 'h'))
        deliver_all()
        extra += 1
        g = (behind(), tuple(sorted((str(k), v) for n in voters if N[n].obj._isLeader() for k, v in getattr(N[n].obj, '_SyncObj__raftNextIndex').items())))
        stalled = stalled + 1 if g == last_gap else 0
        last_gap = g
    trace.append(cl.step(('Assert', 'converged', list(ids)) if minus else ('Assert', 'converged')))


def boot_phase(cl, rng, trace, state):
    """connect everything and let one node win the first election (saves the random walk the time to get there)"""
    N = cl.nodes

    def do(act):
        if cl.applicable(act):
            trace.append(cl.step(act))
    ids = sorted(n for n in N if N[n].alive)
    for i in ids:
        for j in ids:
            if i != j:
                do(('Connect', i, j))

    def deliver_all():
        for _ in range(50):
            chans = sorted((i, j) for (i, j), q in cl.net.chan.items() if q and j in N and N[j].alive)
            if not chans:
                return
            for (i, j) in chans:
                do(('Deliver', i, j))
    deliver_all()
    voters = [n for n in ids if N[n].voter]
    first = rng.choice(voters)
    for attempt in range(3):
        do(('Tick', first, 'j'))
        deliver_all()
        if N[first].obj._isLeader():
            break
    for r in range(2):
        for n in ids:
            do(('Tick', n, 'h'))
        deliver_all()


def splitvote_phase(cl, rng, trace, state):
    """directed schedule: the leader is cut off; a follower whose log is behind and an up-to-date one stand in the
    same term; the remaining voters hear the stale candidate first (they refuse it but learn the term), then the
    other one (granted in a term they already know); one of them is killed and restarted right away."""
    N = cl.nodes

    def do(act):
        if cl.applicable(act):
            trace.append(cl.step(act))
            return True
        return False
    voters = sorted(n for n in N if N[n].alive and N[n].voter)
    ls = [(N[n].obj.raftCurrentTerm, n) for n in voters if N[n].obj._isLeader()]
    if not ls:
        return
    L = max(ls)[1]
    rest = [v for v in voters if v != L]
    if len(rest) < 3:
        return
    last = lambda n: getattr(N[n].obj, '_SyncObj__raftLog')[-1][1]
    iso = getattr(cl, 'script_isolated', None)
    A = iso if iso in rest else min(rest, key=lambda n: (last(n), n))
    B = max([v for v in rest if v != A], key=lambda n: (last(n), n))
    others = [v for v in rest if v not in (A, B)]
    for m in rest:
        do(('Break', L, m)); do(('Notice', L, m)); do(('Notice', m, L))
    for a in rest:
        for b in rest:
            if a < b:
                do(('Notice', a, b)); do(('Notice', b, a)); do(('Connect', a, b)); do(('Connect', b, a))
    for a in rest:
        for b in rest:
            if a != b and cl.net.chan.get((a, b)) and cl.net.chan[(a, b)][0].data == sc.HELLO:
                do(('Deliver', a, b))
    cl.script_isolated = None
    do(('Tick', A, 'j'))
    do(('Tick', B, 'j'))
    for c in others:
        while do(('Deliver', A, c)):
            pass
        while do(('Deliver', B, c)):
            pass
    if cl.cfg.get('journal') and others:
        c = rng.choice(others)
        if rng.random() < 0.5:
            do(('Crash', c))
        else:
            do(('KillAt', c, rng.choice([1, 2, 3]), ['Tick', c, 'z']))
        do(('Restart', c))
    for c in others:
        for x in (A, B):
            while do(('Deliver', c, x)):
                pass


def oldreq_phase(cl, rng, trace, state):
    """directed schedule (journal): the leader is killed and restarted (it knows no leader, what is forwarded to it waits in
    its queue); a follower that still takes it for the leader forwards calls to it, is killed and restarted itself, and
    forwards new calls - the first requests of its new process - once the old leader has been elected again; then the
    leader works off its queue and answers the requests of the follower's previous process."""
    N = cl.nodes

    def do(act):
        if cl.applicable(act):
            trace.append(cl.step(act))
            return True
        return False
    ids = sorted(n for n in N if N[n].alive and N[n].voter)
    ls = [(N[n].obj.raftCurrentTerm, n) for n in ids if N[n].obj._isLeader()]
    if not ls or len(ids) < 3:
        return
    L = max(ls)[1]
    X = rng.choice([n for n in ids if n != L])
    Z = [n for n in ids if n not in (L, X)]

    def link(a, b):
        for (i, j) in ((a, b), (b, a)):
            do(('Notice', i, j))
        do(('Connect', a, b))
        while do(('Deliver', a, b)):
            pass

    def sub(n, k):
        for _ in range(k):
            state['ncmd'] += 1
            do(('Submit', n, 'c%d' % state['ncmd'], {'kind': 'op'}))
    do(('Crash', L)); do(('Restart', L))
    do(('Notice', X, L))
    link(X, L)
    sub(X, rng.choice([2, 3]))
    do(('Tick', X, 'z'))                       # forwarded to what it takes for the leader
    while do(('Deliver', X, L)):
        pass
    do(('Crash', X)); do(('Restart', X))
    do(('Notice', L, X))
    link(X, L)
    for z in Z:
        do(('Notice', z, L)); link(z, L)
        do(('Notice', z, X)); link(X, z)
    for attempt in range(3):
        do(('Tick', L, 'j'))                   # the old leader stands again
        for z in Z + [X]:
            while do(('Deliver', L, z)):
                pass
            while do(('Deliver', z, L)):
                pass
        if N[L].obj._isLeader():
            break
    while do(('Deliver', L, X)):               # the restarted follower learns who leads
        pass
    sub(X, rng.choice([2, 3]))
    do(('Tick', X, 'z'))                       # the first requests of its new process
    do(('Tick', L, 'z'))                       # the leader works off its queue: answers to the old process's requests
    while do(('Deliver', L, X)):
        pass
    for r in range(3):                         # ... and what it appended is replicated, committed and applied
        for n in ids:
            do(('Tick', n, 'h'))
        for _ in range(20):
            chans = sorted((i, j) for (i, j), q in cl.net.chan.items() if q and j in N and N[j].alive)
            if not chans:
                break
            for (i, j) in chans:
                do(('Deliver', i, j))


def relead_phase(cl, rng, trace, state):
    """directed schedule: a leader is sending its snapshot in pieces to a follower that is behind; the follower's election
    timer fires after the first piece (it moves to a newer term and ignores the rest, the leader is deposed by its vote
    request); the same leader is elected again and goes on feeding that follower."""
    N = cl.nodes

    def do(act):
        if cl.applicable(act):
            trace.append(cl.step(act))
            return True
        return False
    ids = sorted(n for n in N if N[n].alive)

    def sending(l):
        ser = getattr(N[l].obj, '_SyncObj__serializer')
        return sorted(getattr(x, 'id', str(x)) for x in getattr(ser, '_Serializer__transmissions', {}))
    L = m = None
    for r in range(12):
        ls = [(N[n].obj.raftCurrentTerm, n) for n in ids if N[n].voter and N[n].obj._isLeader()]
        if ls:
            L = max(ls)[1]
            tg = [x for x in sending(L) if x in ids]
            if tg:
                m = tg[0]
                break
            do(('Tick', L, 'h'))
            for x in ids:
                if x != L:
                    do(('Deliver', x, L))
        else:
            do(('Tick', rng.choice(ids), 'j'))
            for (i, j) in sorted(cl.net.chan):
                while do(('Deliver', i, j)):
                    pass
    if m is None:
        return
    for k in range(rng.choice([1, 1, 2, 3])):
        do(('Deliver', L, m))
    do(('Tick', m, 'j'))                          # the follower stands: newer term
    while do(('Deliver', m, L)):                  # the leader hears of the newer term and steps down
        pass
    for k in range(rng.choice([0, 2, 50])):       # what it had sent meanwhile is ignored over there
        if not do(('Deliver', L, m)):
            break
    others = [x for x in ids if x not in (L, m)]
    for attempt in range(3):
        do(('Tick', L, 'j'))                      # ... and is elected again
        for x in others:
            while do(('Deliver', m, x)):
                pass
            while do(('Deliver', L, x)):
                pass
            while do(('Deliver', x, L)):
                pass
        if N[L].obj._isLeader():
            break


def shrink_phase(cl, rng, trace, state):
    """directed schedule: a leader is sending its snapshot in pieces to a follower that is behind; most pieces have arrived
    when the leader applies one or two more commands and compacts again - the transfer starts over with the newer snapshot,
    which (ballast by parity, cfg pad='parity') may be much shorter than what the follower has already received."""
    N = cl.nodes

    def do(act):
        if cl.applicable(act):
            trace.append(cl.step(act))
            return True
        return False
    ids = sorted(n for n in N if N[n].alive)

    def sending(l):
        ser = getattr(N[l].obj, '_SyncObj__serializer')
        return sorted(getattr(x, 'id', str(x)) for x in getattr(ser, '_Serializer__transmissions', {}))
    L = m = None
    for r in range(12):
        ls = [(N[n].obj.raftCurrentTerm, n) for n in ids if N[n].voter and N[n].obj._isLeader()]
        if ls:
            L = max(ls)[1]
            tg = [x for x in sending(L) if x in ids]
            if tg:
                m = tg[0]
                break
            do(('Tick', L, 'h'))
            for x in ids:
                if x != L:
                    do(('Deliver', L, x))
                    do(('Deliver', x, L))
        else:
            do(('Tick', rng.choice(ids), 'j'))
            for (i, j) in sorted(cl.net.chan):
                while do(('Deliver', i, j)):
                    pass
    if m is None:
        return
    others = [x for x in ids if x not in (L, m)]
    if rng.random() < 0.7:
        # the leader, whose state is already ahead of the snapshot it is sending, compacts in the middle of the transfer: the
        # pieces of the old snapshot that are on their way arrive first, then the first piece of the newer (shorter?) one
        def commit_one():
            state['ncmd'] += 1
            do(('Submit', L, 'c%d' % state['ncmd'], {'kind': 'op'}))
            for _ in range(3):
                do(('Tick', L, 'h'))
                for x in others:
                    while do(('Deliver', L, x)):
                        pass
                    while do(('Deliver', x, L)):
                        pass
        if len(getattr(N[L].obj, 'hist', [])) % 2 == 0:
            commit_one()                              # heavy state (ballast by parity) ...
        do(('Compact', L))
        do(('Tick', L, 'h'))                          # ... goes into the snapshot whose pieces leave first
        commit_one()                                  # light state
        do(('Compact', L))
        do(('Tick', L, 'h'))                          # newer, shorter snapshot: the transfer starts over
        do(('Tick', L, 'h'))
        for _ in range(4):
            while do(('Deliver', L, m)):
                pass
            while do(('Deliver', m, L)):
                pass
            do(('Tick', L, 'h'))
        return
    for rnd in range(rng.choice([1, 2, 3])):          # pieces of the first snapshot arrive (replies are held back)
        while do(('Deliver', L, m)):
            pass
        if rnd < 2:
            do(('Tick', L, 'h'))
    for k in range(rng.choice([1, 1, 2])):            # the leader's state moves on ...
        state['ncmd'] += 1
        do(('Submit', L, 'c%d' % state['ncmd'], {'kind': 'op'}))
    for _ in range(3):
        do(('Tick', L, 'h'))
        for x in others:
            while do(('Deliver', L, x)):
                pass
            while do(('Deliver', x, L)):
                pass
    do(('Compact', L))                                # ... and it takes a new snapshot
    for _ in range(4):
        do(('Tick', L, 'h'))
        while do(('Deliver', L, m)):
            pass
        while do(('Deliver', m, L)):
            pass


def votenew_phase(cl, rng, trace, state):
    """directed schedule (dynamic membership + journal): a spare node is added at run time and started; the leader is cut
    off; the NEW member stands and one of the old voters grants it its vote; that voter is killed and restarted right away
    (its constructor still lists the original members only); then the other old voter stands in the same term."""
    N = cl.nodes

    def do(act):
        if cl.applicable(act):
            trace.append(cl.step(act))
            return True
        return False

    def deliver_all(skip=()):
        for _ in range(60):
            chans = sorted((i, j) for (i, j), q in cl.net.chan.items() if q and j in N and N[j].alive and (i, j) not in skip)
            if not chans:
                return
            for (i, j) in chans:
                do(('Deliver', i, j))
    voters = sorted(n for n in N if N[n].alive and N[n].voter)
    spares = sorted(n for n in N if not N[n].alive and N[n].voter and N[n].generation == 0)
    ls = [(N[n].obj.raftCurrentTerm, n) for n in voters if N[n].obj._isLeader()]
    if not ls or not spares or len(voters) < 3:
        return
    L, D = max(ls)[1], spares[0]
    state['ncmd'] += 1
    do(('Submit', L, 'm%d' % state['ncmd'], {'kind': 'add', 'x': D}))
    for r in range(4):
        for n in voters:
            do(('Tick', n, 'h'))
        deliver_all()
    if not all(D in [x.id for x in N[n].obj.otherNodes] for n in voters):
        return
    do(('Start', D, sorted(voters + [D])))
    for n in voters:
        do(('Connect', D, n)); do(('Connect', n, D))
    for r in range(4):
        for n in voters + [D]:
            do(('Tick', n, 'h'))
        deliver_all()
    rest = [v for v in voters if v != L]
    for m in rest + [D]:
        do(('Break', L, m)); do(('Notice', L, m)); do(('Notice', m, L))
    X = rng.choice(rest)
    Y = [v for v in rest if v != X][0]
    do(('Tick', D, 'j'))                       # the new member stands
    while do(('Deliver', D, X)):               # X hears it first and grants
        pass
    if rng.random() < 0.5:
        do(('Crash', X))
    else:
        do(('KillAt', X, rng.choice([1, 2, 3]), ['Tick', X, 'z']))
    do(('Restart', X))
    do(('Tick', Y, 'j'))                       # the other old voter stands, possibly in the same term
    for n in (Y, D):
        do(('Connect', X, n)); do(('Connect', n, X))
    deliver_all(skip={(D, Y), (Y, D)})
    deliver_all()


def reelect_phase(cl, rng, trace, state, variant=None):
    """directed schedule towards the states in which the commit rules matter (Raft's 'figure 8' family):
    the leader L and a minority around it are cut off and keep appending (acknowledged inside the minority, never
    committed); the majority side elects B; either B is cut off before it replicates anything ('bare') or it
    replicates and overwrites the minority's entries after the partition heals ('overwrite'); then L is elected
    again.  Every step is an ordinary action of the scheduler (recorded, validated); what follows is random."""
    N = cl.nodes

    def do(act):
        if cl.applicable(act):
            trace.append(cl.step(act))
            return True
        return False

    def leader_of(ids):
        ls = [(N[n].obj.raftCurrentTerm, n) for n in ids if N[n].alive and N[n].obj._isLeader()]
        return max(ls)[1] if ls else None

    def cut(a, b):
        do(('Break', a, b)); do(('Notice', a, b)); do(('Notice', b, a))

    def join(a, b):
        do(('Notice', a, b)); do(('Notice', b, a)); do(('Connect', a, b)); do(('Connect', b, a))

    def deliver_within(group, rounds=6, skip_from=()):
        for _ in range(rounds):
            chans = sorted((i, j) for (i, j), q in cl.net.chan.items() if q and i in group and j in group and N[j].alive and i not in skip_from)
            if not chans:
                return
            for (i, j) in chans:
                do(('Deliver', i, j))

    voters = sorted(n for n in N if N[n].alive and N[n].voter)
    L = leader_of(voters)
    if L is None or len(voters) < 3:
        return
    variant = variant or rng.choice(['bare', 'overwrite'] + (['fresh', 'fresh'] if cl.cfg.get('membership') else []))
    if variant == 'fresh':
        # everything is replicated and applied; another node takes over and is asked for a membership change before it
        # has replicated (let alone committed) the no-op of its own term
        ids_ = sorted(n for n in N if N[n].alive)
        for r in range(3):
            for n in ids_:
                do(('Tick', n, 'h'))
            deliver_within(set(ids_), rounds=6)
        X = rng.choice([v for v in voters if v != L])
        do(('Tick', X, 'j'))
        for _ in range(4):
            for m in voters:
                if m != X:
                    if cl.net.chan.get((X, m)) and not N[X].obj._isLeader():
                        do(('Deliver', X, m))
                    if cl.net.chan.get((m, X)) and not N[X].obj._isLeader():
                        do(('Deliver', m, X))
        if N[X].obj._isLeader() and state.get('memb_targets'):
            state['ncmd'] += 1
            do(('Submit', X, 'm%d' % state['ncmd'], {'kind': rng.choice(['add', 'rem']), 'x': rng.choice([t for t in state['memb_targets'] if t != X])}))
            do(('Tick', X, 'z'))
        return
    others = [v for v in voters if v != L]
    rng.shuffle(others)
    nmin = rng.randint(0, (len(voters) - 1) // 2 - 1) if len(voters) > 3 else 0
    minority = [L] + others[:nmin]
    majority = others[nmin:]
    for a in minority:
        for b in majority:
            cut(a, b)
    # the cut-off leader keeps accepting commands; its minority acknowledges them
    for k in range(rng.randint(1, 3)):
        state['ncmd'] += 1
        do(('Submit', L, 'c%d' % state['ncmd'], dict({'kind': 'op'}, **({'size': rng.choice(state['sizes'])} if state.get('sizes') and rng.random() < 0.65 else {}))))
        do(('Tick', L, 'z'))
        deliver_within(set(minority), rounds=3)
    for m in minority:
        do(('Tick', m, 'h'))
    deliver_within(set(minority), rounds=4)
    # the other side elects B
    B = majority[0]
    for attempt in range(4):
        do(('Tick', B, 'j'))
        if variant == 'bare':
            # votes travel, B's own appends do not leave it (yet)
            for _ in range(4):
                for m in majority[1:]:
                    if cl.net.chan.get((B, m)) and not N[B].obj._isLeader():
                        do(('Deliver', B, m))
                    if cl.net.chan.get((m, B)):
                        do(('Deliver', m, B))
        else:
            deliver_within(set(majority), rounds=6)
        if N[B].obj._isLeader():
            break
    if not N[B].obj._isLeader():
        return
    if variant == 'bare':
        for m in voters:
            if m != B:
                cut(B, m)
        rest = [v for v in voters if v != B]
    else:
        for r in range(3):
            do(('Tick', B, 'h'))
            deliver_within(set(majority), rounds=4)
            if r == 0 and state.get('sizes'):
                # the new leader's own commands take the positions of the cut-off leader's unreplicated ones
                for _k in range(rng.randint(1, 2)):
                    state['ncmd'] += 1
                    do(('Submit', B, 'c%d' % state['ncmd'], dict({'kind': 'op'}, **({'size': rng.choice(state['sizes'])} if rng.random() < 0.8 else {}))))
                do(('Tick', B, 'z'))
        rest = list(voters)
    for a in rest:
        for b in rest:
            if a < b:
                join(a, b)
    if variant == 'overwrite':
        for r in range(4):
            do(('Tick', B, 'h'))
            deliver_within(set(rest), rounds=4)
        for m in voters:
            if m != B:
                cut(B, m)
        rest = [v for v in voters if v != B]
    else:
        deliver_within(set(rest), rounds=2)
    # L stands again
    for attempt in range(5):
        do(('Tick', L, 'j'))
        for _ in range(4):
            for m in rest:
                if m != L:
                    if cl.net.chan.get((L, m)) and not N[L].obj._isLeader():
                        do(('Deliver', L, m))
                    if cl.net.chan.get((m, L)) and not N[L].obj._isLeader():
                        do(('Deliver', m, L))
        if N[L].obj._isLeader():
            break
    if not N[L].obj._isLeader():
        return
    # a membership request reaches the fresh leader before it has committed anything of its own term
    if cl.cfg.get('membership') and state.get('memb_targets'):
        state['ncmd'] += 1
        do(('Submit', L, 'm%d' % state['ncmd'], {'kind': rng.choice(['add', 'rem']), 'x': rng.choice(state['memb_targets'])}))
        do(('Tick', L, 'z'))
    # acknowledgements reach the new leader one follower at a time, with a commit scan after each
    fol = [m for m in rest if m != L]
    rng.shuffle(fol)
    for m in fol:
        for _ in range(3):
            if cl.net.chan.get((L, m)):
                do(('Deliver', L, m))
            if cl.net.chan.get((m, L)):
                do(('Deliver', m, L))
            do(('Tick', L, 'z'))
        if rng.random() < 0.3:
            do(('Tick', L, 'h'))


def _script(cl, script, rng):
    """expand scripted phase-start actions"""
    out = []
    for s in script:
        if s[0] == 'isolate':       # cut every link of node s[1]; both ends notice
            n = s[1] if s[1] not in ('?', 'follower', 'leader') else rng.choice(sorted(cl.nodes))
            if s[1] == 'leader':    # the current leader (highest term), if any
                ls = [(sn.obj.raftCurrentTerm, nid) for nid, sn in cl.nodes.items() if sn.alive and sn.obj._isLeader()]
                n = max(ls)[1] if ls else rng.choice(sorted(cl.nodes))
            if s[1] == 'follower':  # a running node that is not the leader
                ls = {nid for nid, sn in cl.nodes.items() if sn.alive and sn.obj._isLeader()}
                fs = sorted(nid for nid, sn in cl.nodes.items() if sn.alive and nid not in ls)
                n = rng.choice(fs) if fs else rng.choice(sorted(cl.nodes))
            cl.script_isolated = n
            for m in sorted(cl.nodes):
                if m != n:
                    out += [('Break', n, m), ('Notice', n, m), ('Notice', m, n)]
        elif s[0] == 'hold':        # stop delivering from one ordered channel (messages pile up): stale replies later
            ids = sorted(n for n in cl.nodes if cl.nodes[n].alive)
            if s[1] == 'fromleader':
                ls = [(sn.obj.raftCurrentTerm, nid) for nid, sn in cl.nodes.items() if sn.alive and sn.obj._isLeader()]
                if ls:
                    l = max(ls)[1]
                    f = rng.choice([x for x in ids if x != l])
                    cl.script_held = {(l, f)}
                    cl.script_isolated = f        # submissions are biased towards this follower
            elif s[1] == 'toleader':
                ls = [(sn.obj.raftCurrentTerm, nid) for nid, sn in cl.nodes.items() if sn.alive and sn.obj._isLeader()]
                if ls:
                    l = max(ls)[1]
                    f = rng.choice([x for x in ids if x != l])
                    cl.script_held = {(f, l)}
            else:
                i = rng.choice(ids)
                j = rng.choice([x for x in ids if x != i])
                cl.script_held = {(i, j)}
        elif s[0] == 'release':
            cl.script_held = set()
        elif s[0] == 'heal':        # (re)connect everything that can be connected
            ids = sorted(cl.nodes)
            for i in ids:
                for j in ids:
                    if i < j:
                        out += [('Notice', i, j), ('Notice', j, i), ('Connect', j, i), ('Connect', i, j), ('Deliver', j, i), ('Deliver', i, j)]
        else:
            out.append(tuple(s))
    # generated lazily against the evolving cluster: applicability is re-checked by the caller
    return out


def run_schedule(cfg, schedule):
    """execute a given list of actions; inapplicable ones are skipped (and logged as such)"""
    cl = sc.Cluster(cfg)
    trace = [cl.initial_record()]
    skipped = 0
    try:
        for act in schedule:
            act = tuple(act)
            if not cl.applicable(act):
                skipped += 1
                continue
            trace.append(cl.step(act))
    finally:
        cl.close()
    return trace, skipped


def write_trace(path, cfg, trace, meta=None):
    with open(path, 'w') as f:
        json.dump({'cfg': cfg, 'meta': meta or {}, 'steps': trace}, f, separators=(',', ':'))

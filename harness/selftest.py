"""./check selftest - demonstrate that the binding between specification and code is not vacuous:
a recorded field is corrupted, a recorded step is removed, and each time the trace validator must object."""
import sys, json, copy, shutil
from . import tlc, sched, engine_core


def main(argv):
    ok = True
    wd = tlc.scratch('verif_selftest_')
    try:
        cfg = {'voters': ['a', 'b', 'c'], 'batch': 50}
        w = dict(engine_core.W_BASE)
        tr = sched.run_random(cfg, 3, 400, weights=w, maxcmd=30)
        r = tlc.validate_core_traces([tr], cfg, wd, 'clean')
        print('clean trace: accepted=%s drift=%d viol=%d' % (r['done'] == 1, len(r['drift']), len(r['viol'])))
        ok &= (r['done'] == 1 and not r['drift'] and not r['viol'])
        # 1. corrupt one field
        t2 = copy.deepcopy(tr)
        k = [i for i, s in enumerate(t2) if 'upd' in s and 'b' in s['upd'] and s['upd']['b'].get('alive')][20]
        t2[k]['upd']['b']['commit'] += 1
        r = tlc.validate_core_traces([t2], cfg, wd, 'corrupt')
        print('commit index of b corrupted at step %d: drift=%s viol=%s' % (k, [d.get('names') for d in r['drift'][:2]], [v.get('names') for v in r['viol'][:2]]))
        ok &= bool(r['drift'])
        # 2. drop one step that changed state
        t3 = copy.deepcopy(tr)
        k = [i for i, s in enumerate(t3) if s['a'][0] == 'Deliver' and 'upd' in s][15]
        del t3[k]
        r = tlc.validate_core_traces([t3], cfg, wd, 'dropped')
        print('step %d removed: drift=%s' % (k, [d.get('names') for d in r['drift'][:2]]))
        ok &= bool(r['drift'])
        # 3. a callback reported twice
        t4 = copy.deepcopy(tr)
        k = [i for i, s in enumerate(t4) if 'cbs' in s][0]
        cid = list(t4[k]['cbs'])[0]
        t4[k]['cbs'][cid] = t4[k]['cbs'][cid] * 2
        r = tlc.validate_core_traces([t4], cfg, wd, 'cbtwice')
        print('callback of %s duplicated at step %d: viol=%s' % (cid, k, [v.get('names') for v in r['viol'][:1]]))
        ok &= any('C02.CallbackAtMostOnce' in (v.get('names') or []) for v in r['viol'])
        print('SELFTEST', 'OK' if ok else 'FAILED')
        return 0 if ok else 2
    finally:
        shutil.rmtree(wd, ignore_errors=True)

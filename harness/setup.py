"""MANIFEST.setup_cmd: parse every specification with SANY (offline, from files on disk only)."""
import os, sys, glob
from . import tlc


def main():
    bad = 0
    for f in sorted(glob.glob(os.path.join(tlc.SPEC_DIR, '*.tla'))):
        ok, out = tlc.sany(os.path.basename(f))
        print('SANY %-20s %s' % (os.path.basename(f), 'ok' if ok else 'FAILED'))
        if not ok:
            print(out[out.find('*** Errors'):][:600] if '*** Errors' in out else out[-800:])
            bad += 1
    os.makedirs(os.path.join(tlc.ROOT, 'evidence'), exist_ok=True)
    return 1 if bad else 0

"""Cluster of real, unmodified pysyncobj.SyncObj objects under scheduler control.

The scheduler owns the network (SimTransport injected through the public ``transport=``
argument), every node's clock (``pysyncobj.syncobj.monotonicTime``), the election-timeout
randomness (``pysyncobj.syncobj.random``) and, for journaled nodes, the storage directory.
One scheduler step = one real entry point of one real node (DESIGN.md section 3).

Nothing here guesses state: after every step the abstract state of every node is *projected*
from the real objects (project_node) and the step is logged with the projection of whatever
changed.  The log (an "implementation trace") is validated by TLC against spec/CoreTrace.tla.
"""
import sys, os, collections, json, struct, functools, shutil, tempfile, io, gzip, hashlib

REPO = os.environ.get('VERIF_REPO', '/repo')
if REPO not in sys.path:
    sys.path.insert(0, REPO)

import pickle as _stdpickle
import pysyncobj.syncobj as so
from pysyncobj import SyncObj, SyncObjConf, replicated, FAIL_REASON, SyncObjConsumer
from pysyncobj.transport import Transport
from pysyncobj.node import Node
import pysyncobj.pickle as sopickle
import logging
logging.getLogger('pysyncobj').setLevel(logging.CRITICAL + 1)
logging.getLogger('pysyncobj.syncobj').setLevel(logging.CRITICAL + 1)
logging.getLogger('pysyncobj.serializer').setLevel(logging.CRITICAL + 1)

NIL = 'Nil'

# ----------------------------------------------------------------------------------------------
# time scales (DESIGN 3 "Time"): one unit = appendEntriesPeriod
T_PERIOD = 1.0
T_FALLBACK = 1.0e5          # leaderFallbackTimeout
T_ELMIN, T_ELMAX = 4.0e11, 6.0e11
ADV = {'z': 0.0, 'h': 2.0, 'm': 1.0e6, 'j': 1.0e12}
ROLE = {0: 'F', 1: 'C', 2: 'L'}
DEFAULT_CUT = 8            # iterations of the append_entries send loop before its time budget is used up


class _Ctx(object):
    """The single global context the patched module-level names consult."""
    cluster = None
    node = None      # SimNode currently stepping / being constructed


def _now():
    n = _Ctx.node
    if n is None:
        return 1000.0
    if n.send_cut is not None:
        # Time budget of SyncObj.__sendAppendEntries: the schedule decides after how many iterations of the
        # send loop more than appendEntriesPeriod has elapsed (the clock really moves, and stays moved).
        f = sys._getframe(1)
        if f.f_code.co_name == '__sendAppendEntries':
            key = id(f)
            if n.sae_frame != key or f.f_lineno < n.sae_line:
                n.sae_frame, n.sae_reads, n.sae_cut_done = key, 0, False    # a new invocation of the function
            n.sae_line = f.f_lineno
            n.sae_reads += 1
            if n.sae_reads - 2 >= n.send_cut and not n.sae_cut_done:
                n.clock += 2.0 * T_PERIOD
                n.sae_cut_done = True
                n.cut_hits += 1
    return n.clock


class _FakeRandom(object):
    def random(self):
        return 0.5

    def getrandbits(self, k):
        # the start value of a process's request ids: distinct per incarnation of a node (1000 * incarnation number)
        n = _Ctx.node
        return 1000 * (n.generation - 1) if n is not None else 0


class _DetGzip(object):
    """gzip with a fixed header time stamp: equal snapshot content <=> equal bytes (blob identity = content)"""
    @staticmethod
    def GzipFile(filename=None, mode=None, compresslevel=9, fileobj=None, mtime=None):
        return gzip.GzipFile(filename=filename, mode=mode, compresslevel=compresslevel, fileobj=fileobj, mtime=0)


def install_patches():
    import pysyncobj.serializer as ser
    so.monotonicTime = _now
    so.random = _FakeRandom()
    ser.gzip = _DetGzip


install_patches()


# ----------------------------------------------------------------------------------------------
class Msg(object):
    """one item of a channel: the pickled message as it would be on the wire, plus facts about it that were
    established when it was sent (which snapshot blob and offset a snapshot chunk was cut from)"""
    __slots__ = ('data', 'meta')

    def __init__(self, data, meta=None):
        self.data = data
        self.meta = meta


HELLO = b'hello'
VERNUM = [0, 2, 11]        # highest version a class of code level 0 / 1 / 2 provides


class Net(object):
    """Per ordered pair: FIFO channel of pickled messages; per unordered pair: physical link alive?;
    per ordered pair: does endpoint i have j registered as connected (send succeeds)."""

    def __init__(self):
        self.chan = collections.defaultdict(list)     # (i,j) -> [bytes | ('hello',)]
        self.alive = set()                             # frozenset({i,j})
        self.up = set()                                # (i,j): i considers j connected
        self.tr = {}                                   # id -> SimTransport

    def pair(self, i, j):
        return frozenset((i, j))


class SimTransport(Transport):
    def __init__(self, cluster, me):
        Transport.__init__(self, None, None, None)
        self.cluster = cluster
        self.net = cluster.net
        self.me = me
        self.net.tr[me] = self
        self.members = set()      # node ids added through addNode and not dropped (voters known to me)
        self.ro_counter = 0
        self.ro_ids = {}          # observer sim id -> Node the raft layer knows it as
        self.ro_hist = {}         # every counter id ever handed out -> observer sim id
        self.ae_order = []        # per step: peers in the order the append_entries send loop reached them

    # -- API used by SyncObj
    def addNode(self, node):
        self.members.add(node.id)

    def dropNode(self, node):
        nid = node.id
        self.members.discard(nid)
        # TCPTransport.dropNode closes the connection without notifying the raft layer of this side
        peer = self._peer_of(nid)
        if peer is not None and (self.me, peer) in self.net.up:
            self.net.up.discard((self.me, peer))
            self.cluster._physical_break(self.me, peer)
        for o, n in list(self.ro_ids.items()):
            if n.id == nid:
                del self.ro_ids[o]

    def _peer_of(self, nid):
        """raft-level node id -> simulator node id"""
        for o, n in self.ro_ids.items():
            if n.id == nid:
                return o
        return nid if nid in self.cluster.nodes or nid in self.cluster.all_ids else None

    def send(self, node, message):
        peer = self._peer_of(node.id)
        if peer is not None and isinstance(message, dict) and message.get('type') == 'append_entries' \
                and peer not in self.ae_order:
            self.ae_order.append(peer)      # iteration order of the leader's send loop over its set of peers
        if isinstance(message, dict) and message.get('type') == 'append_entries' and message.get('transmission') is not None:
            self._watch_pieces(node, message)
        if peer is None or (self.me, peer) not in self.net.up:
            return False
        if self.cluster.nodes[self.me].dead:
            return True
        data = sopickle.dumps(message)
        meta = None
        if isinstance(message, dict) and message.get('type') == 'append_entries' and message.get('serialized'):
            meta = self.cluster._chunk_meta(self.me, node, message['serialized'])
        back = self.net.chan.get((peer, self.me))
        rebinding = bool(back) and back[0].data == HELLO
        if self.net.pair(self.me, peer) in self.net.alive and not rebinding:
            self.net.chan[(self.me, peer)].append(Msg(data, meta))
        # else: written into a dead connection that this side has not noticed yet - also when the peer has dialled again
        # meanwhile and its hello has not been processed here: this side's registration is still the OLD connection
        return True

    def _watch_pieces(self, node, message):
        """a log entry too large for one message goes out in pieces: from 'start' to 'finish' they must be the pickled
        entry the sender's log holds at that position at this moment - every byte once, in order (observed at the wire)"""
        st = self.__dict__.setdefault('_pieces', {})
        key = node.id
        kind = message['transmission']
        if kind == 'start':
            st[key] = [message['prevLogIdx'], [message['data']]]
            return
        cur = st.get(key)
        if cur is None or cur[0] != message['prevLogIdx']:
            st.pop(key, None)
            return
        cur[1].append(message['data'])
        if kind == 'finish':
            st.pop(key, None)
            try:
                o = self.cluster.nodes[self.me].obj
                log = getattr(o, '_SyncObj__raftLog')
                first = log[0][1]
                ent = log[cur[0] + 1 - first]
                ok = (b''.join(bytes(x) for x in cur[1]) == bytes(sopickle.dumps(ent)))
            except Exception:
                ok = False
            self.cluster.rec.step_obs.append({'k': 'pieces', 'n': self.me, 'to': key, 'idx': int(cur[0]) + 1, 'ok': bool(ok)})

    def destroy(self):
        pass


# ----------------------------------------------------------------------------------------------
class Recorder(object):
    """Observations made by the real callbacks / replicated methods (never by the scheduler)."""

    def __init__(self):
        self.cbs = collections.OrderedDict()   # cid -> [ [res, err], ... ]
        self.exc = []                           # [ [node, where, type] ]
        self.step_obs = []

    def on_cb(self, cid, res, err):
        n = _Ctx.node
        if n is not None and n.dead:
            return          # the process that would run this callback was killed
        self.cbs.setdefault(cid, []).append([_absres(res), int(err) if err is not None else -1])
        self.step_obs.append({'k': 'cb', 'cid': cid, 'res': _absres(res), 'err': int(err) if err is not None else -1})


def _absres(r):
    if r is None:
        return -1
    if isinstance(r, bool):
        return int(r)
    if isinstance(r, int):
        return r
    return -2


class AppError(Exception):
    def __init__(self, what, item, wanted):
        super(AppError, self).__init__('%s: %s (%d wanted)' % (what, item, wanted))
        self.item = item


def make_obj_class(versions=False):
    """The replicated object: its state is the sequence of executed commands (free state machine)."""

    class Obj(SyncObj):
        def __init__(self, selfNode, others, conf, transport, sim, consumers=None):
            self._sim = sim           # set before SyncObj.__init__ -> excluded from snapshots
            super(Obj, self).__init__(selfNode, others, conf, transport=transport, nodeClass=Node,
                                      consumers=consumers)
            self.hist = []            # replicated state: [(position, command id, variant)]

        def _exec(self, cid, variant):
            pos = self.raftLastApplied + 1
            self.hist.append((pos, cid, variant))
            if self._sim is not None and self._sim.cluster.cfg.get('pad'):
                # ballast that is a function of the last executed command only (so equal histories still give equal
                # snapshot bytes): incompressible, 0 / 160 / 320 / 480 bytes - a newer snapshot is often SHORTER than an older one
                import hashlib as _h, zlib as _z
                k = 5 * (_z.crc32(str(cid).encode()) % 4)
                if self._sim.cluster.cfg.get('pad') == 'parity':
                    k = 15 if len(self.hist) % 2 else 0      # every other state is 480 bytes heavier
                self.pad = b''.join(_h.sha256(('%s/%d' % (cid, i)).encode()).digest() for i in range(k))
            return len(self.hist)

        @replicated
        def op(self, cid, pad=None):
            return self._exec(cid, 0)

        @replicated
        def opx(self, cid, *args, **kwargs):
            # arguments of any shape: their digest becomes part of the replicated state
            import zlib as _z
            dig = _z.crc32(repr((args, sorted(kwargs.items()))).encode()) % 100000 + 10
            return self._exec(cid, dig)

        # a set kept inside the same state: k is in it iff the last executed command about k was 'ad:k'.  Calls are
        # byte-identical when repeated; 'rm:k' raises unless k is in the set (a failure that depends on the state)
        def _inset(self, k):
            for (_, c, _) in reversed(self.hist):
                if c in ('ad:' + k, 'rm:' + k):
                    return c.startswith('ad:')
            return False

        @replicated
        def ad(self, cmd):
            return self._exec(cmd, 0)

        @replicated
        def rm(self, cmd):
            if not self._inset(cmd.split(':', 1)[1]):
                self._sim.cluster.rec.step_obs.append({'k': 'raise', 'n': self._sim.id, 'cid': cmd,
                                                       'pos': self.raftLastApplied + 1})
                raise KeyError(cmd)
            return self._exec(cmd, 0)

        @replicated
        def boom(self, cid):
            self._sim.cluster.rec.step_obs.append({'k': 'raise', 'n': self._sim.id, 'cid': cid,
                                                   'pos': self.raftLastApplied + 1})
            # what applications raise: built-in errors, failed assertions, their own exception classes (one whose
            # constructor does not take what it passes on to Exception: it pickles, but does not unpickle)
            kind = sum(bytearray(str(cid).encode())) % 4
            if kind == 0:
                raise ValueError('boom')
            if kind == 1:
                raise AssertionError('boom')
            if kind == 2:
                raise KeyError(cid)
            raise AppError('stock', cid, 3)

        if versions is not False and versions is not None:
            # versions = code level of this node's class: level 0 has the implementation for version 0 only, level 1 adds
            # the one for version 2, level 2 the one for version 11 (two digits: "newest" must not be decided by text order)
            @replicated(ver=0)
            def vop(self, cid):
                return self._exec(cid, 0)

            if versions >= 1:
                @replicated(ver=2)
                def vop(self, cid):
                    return self._exec(cid, 2)

            if versions >= 2:
                @replicated(ver=11)
                def vop(self, cid):
                    return self._exec(cid, 11)

    return Obj


_OBJ_CLASSES = {}


def obj_class(versions):
    if versions not in _OBJ_CLASSES:
        _OBJ_CLASSES[versions] = make_obj_class(versions)
    return _OBJ_CLASSES[versions]


class SimNode(object):
    def __init__(self, cluster, nid, voter=True):
        self.cluster = cluster
        self.id = nid
        self.voter = voter
        self.clock = 1000.0
        self.send_cut = None
        self.sae_frame, self.sae_line, self.sae_reads, self.sae_cut_done = None, 0, 0, False
        self.cut_hits = 0
        self.child = {'st': 'none'}   # the forked dump writer of this node as the operating system sees it
        self.child_pid = 0
        self.dead = False         # killed in the middle of the current step (zombie until the step returns)
        self.writes = 0           # primitive storage writes of the current step
        self.kill_at = None
        self.obj = None
        self.tr = None
        self.alive = False
        self.generation = 0
        self.maxver = 2
        self.last_chunk = None    # meta of the snapshot chunk in the message being delivered
        self.inc_meta = None      # verified decomposition of the incoming snapshot buffer into chunks
        self.nsnap = 0            # snapshot blobs created by this node so far


class Cluster(object):
    """cfg keys: voters, observers, spares, batch (bytes), compact_min (entries), membership (bool),
    journal (bool), dump (bool), fork (bool), use_batch (bool), wait_leader (bool), queue (size),
    versions (bool), workdir"""

    def __init__(self, cfg):
        self.cfg = dict(cfg)
        self.voters = list(cfg.get('voters', ['a', 'b', 'c']))
        self.observers = list(cfg.get('observers', []))
        self.spares = list(cfg.get('spares', []))
        self.all_ids = self.voters + self.spares + self.observers
        self.net = Net()
        self.rec = Recorder()
        self.nodes = {}
        self.cmds = {}           # command id -> dict(kind, node...) of everything ever submitted
        self.bytes2cmd = {}      # command bytes -> abstract command record
        self.workdir = cfg.get('workdir')
        self._own_workdir = False
        if (cfg.get('journal') or cfg.get('dump')) and self.workdir is None:
            self.workdir = tempfile.mkdtemp(prefix='verif_sim_')
            self._own_workdir = True
        _Ctx.cluster = self
        if cfg.get('journal') or cfg.get('dump'):
            from . import crashfs
            crashfs.State.node = lambda: _Ctx.node
            crashfs.State.on_kill = self._on_kill
            crashfs.State.parent_pid = os.getpid()
            crashfs.State.gate_dir = self.workdir
            crashfs.install()
        for nid in self.voters:
            self._start(nid, self.voters, voter=True)
        for nid in self.observers:
            self._start(nid, self.voters, voter=False)
        for nid in self.spares:
            self.nodes[nid] = SimNode(self, nid, True)
        if cfg.get('init_connected', False):
            mesh = [v for v in self.voters if v not in cfg.get('isolated0', [])]
            for x, i in enumerate(mesh):
                for j in mesh[x + 1:]:
                    self.net.alive.add(self.net.pair(i, j))
                    for a, b in ((i, j), (j, i)):
                        self.net.up.add((a, b))
                        self._enter(self.nodes[a], functools.partial(self.net.tr[a]._onNodeConnected, Node(b)), 'connect')
        self.prev_proj = None

    # ------------------------------------------------------------------ lifecycle
    def _conf(self, nid):
        c = self.cfg
        kw = dict(autoTick=False,
                  appendEntriesPeriod=c.get('period', T_PERIOD),
                  raftMinTimeout=T_ELMIN, raftMaxTimeout=T_ELMAX,
                  connectionTimeout=T_ELMAX,
                  leaderFallbackTimeout=c.get('fallback', T_FALLBACK),
                  appendEntriesUseBatch=c.get('use_batch', True),
                  appendEntriesBatchSizeBytes=c.get('batch', 2 ** 16),
                  logCompactionMinEntries=c.get('compact_min', 10 ** 9),
                  logCompactionMinTime=1.0e30,
                  logCompactionBatchSize=c.get('snap_chunk', 2 ** 16),
                  commandsWaitLeader=c.get('wait_leader', True),
                  commandsQueueSize=c.get('queue', 100000),
                  dynamicMembershipChange=c.get('membership', False),
                  useFork=c.get('fork', False))
        if c.get('journal'):
            kw['journalFile'] = os.path.join(self.workdir, nid + '.journal')
        if c.get('dump'):
            kw['fullDumpFile'] = os.path.join(self.workdir, nid + '.dump')
        if c.get('userser'):
            # user-supplied serializer functions: the application stores and restores ITS state (here: hist), the library
            # hands over / takes back what it needs itself.  The file has the layout of the built-in dump, so that the
            # projection reads all modes alike.
            cluster = self

            def user_serializer(fileName, data, nid=nid):
                o = cluster.nodes[nid].obj
                state = {'hist': list(getattr(o, 'hist', [])),
                         '_SyncObj__enabledCodeVersion': int(getattr(o, '_SyncObj__enabledCodeVersion'))}
                if cluster.cfg.get('pad'):
                    state['pad'] = getattr(o, 'pad', b'')
                import pysyncobj.serializer as S_
                with S_.open(fileName, 'wb') as f:
                    with S_.gzip.GzipFile(fileobj=f, mode='wb') as g:
                        sopickle.dump((state,) + tuple(data), g)

            def user_deserializer(fileName, nid=nid):
                import pysyncobj.serializer as S_
                with S_.open(fileName, 'rb') as f:
                    with S_.gzip.GzipFile(fileobj=f) as g:
                        d = sopickle.load(g)
                o = cluster.nodes[nid].obj
                o.hist = list(d[0]['hist'])
                if 'pad' in d[0]:
                    o.pad = d[0]['pad']
                return tuple(d[1:])
            kw['serializer'] = user_serializer
            kw['deserializer'] = user_deserializer
        return SyncObjConf(**kw)

    def _start(self, nid, members, voter=True):
        sn = self.nodes.get(nid)
        if sn is None:
            sn = self.nodes[nid] = SimNode(self, nid, voter)
        sn.generation += 1
        _Ctx.node = sn
        try:
            tr = SimTransport(self, nid)
            others = [m for m in members if m != nid]
            for m in others:
                tr.members.add(m)
            vers = False
            if self.cfg.get('versions'):
                vers = int(self.cfg.get('codever', {}).get(nid, 2))
            sn.maxver = VERNUM[vers] if vers is not False else 0
            cls = obj_class(vers)
            mk = self.cfg.get('consumers')
            sn.obj = cls(Node(nid) if voter else None, [Node(m) for m in others], self._conf(nid), tr, sn,
                         consumers=(mk() if mk else None))
            sn.tr = tr
            sn.alive = True
        finally:
            _Ctx.node = None
        return sn

    def _stop(self, nid, keep_files=False):
        """the process dies: connections gone (peers notice on their own), memory gone"""
        sn = self.nodes[nid]
        sn.alive = False
        sn.dead = True            # whatever _doDestroy would flush is not written
        try:
            sn.obj._doDestroy()
        except Exception:
            pass
        sn.dead = False
        if sn.child.get('st') != 'none' and sn.child_pid:
            # the forked dump writer of a process that is gone: the harness ends it before it renames anything
            try:
                os.kill(sn.child_pid, 9)
            except Exception:
                pass
            try:
                os.waitpid(sn.child_pid, 0)
            except Exception:
                pass
        sn.child = {'st': 'none'}
        sn.obj = None
        sn.tr = None
        self.net.tr.pop(nid, None)
        for p in [p for p in self.net.alive if nid in p]:
            self.net.alive.discard(p)
        for (i, j) in list(self.net.up):
            if i == nid:
                self.net.up.discard((i, j))
        for (i, j) in list(self.net.chan):
            if j == nid:
                self.net.chan[(i, j)] = []
            elif i == nid and not (keep_files and (j, nid) in self.net.up):
                # (a killed process: what it had already sent still reaches every peer that has not noticed yet)
                self.net.chan[(i, j)] = []

    def close(self):
        for sn in self.nodes.values():
            if sn.child.get('st') == 'run' and sn.child_pid:
                try:
                    os.kill(sn.child_pid, 9)
                    os.waitpid(sn.child_pid, 0)
                except Exception:
                    pass
        for sn in self.nodes.values():
            if sn.obj is not None:
                try:
                    sn.obj._doDestroy()
                except Exception:
                    pass
                sn.obj = None
        if self._own_workdir and self.workdir and os.path.isdir(self.workdir):
            shutil.rmtree(self.workdir, ignore_errors=True)

    # ------------------------------------------------------------------ network primitives
    def _physical_break(self, i, j):
        p = self.net.pair(i, j)
        self.net.alive.discard(p)
        self.net.chan[(i, j)] = []
        self.net.chan[(j, i)] = []

    def _raft_node(self, at, peer):
        """The Node object under which `at` knows simulator node `peer`."""
        tr = self.net.tr[at]
        if peer in tr.ro_ids:
            return tr.ro_ids[peer]
        return Node(peer)

    # ------------------------------------------------------------------ the scheduler's actions
    def applicable(self, act):
        k = act[0]
        N = self.nodes
        if k == 'Tick':
            return act[1] in N and N[act[1]].alive
        if k == 'Deliver':
            i, j = act[1], act[2]
            return bool(self.net.chan.get((i, j))) and j in N and N[j].alive
        if k == 'Submit':
            return act[1] in N and N[act[1]].alive and act[2] not in self.cmds
        if k == 'Break':
            return self.net.pair(act[1], act[2]) in self.net.alive
        if k == 'Notice':
            i, j = act[1], act[2]
            return (i, j) in self.net.up and self.net.pair(i, j) not in self.net.alive and N[i].alive
        if k == 'Connect':
            i, j = act[1], act[2]
            if i == j or i not in N or j not in N or not N[i].alive or not N[j].alive:
                return False
            if self.net.pair(i, j) in self.net.alive or (i, j) in self.net.up:
                return False
            if not N[j].voter:
                return False            # nobody dials an observer
            if not N[i].voter and (j, i) in self.net.up:
                return False            # (a read-only node re-dials only after the voter dropped its old connection)
            if N[i].voter and (j not in self.net.tr[i].members):
                return False            # i does not know j as a member: no connection object
            return True
        if k == 'Compact':
            return act[1] in N and N[act[1]].alive
        if k == 'Start':
            # (with a journal only a node that never ran is started fresh: a node that ran has files, it is Restarted)
            return act[1] in N and not N[act[1]].alive and N[act[1]].voter and (not self.cfg.get('journal') or N[act[1]].generation == 0)
        if k == 'Stop':
            return act[1] in N and N[act[1]].alive
        if k == 'Assert':
            return True
        if k in ('ChildDone', 'ChildKill'):
            return act[1] in N and N[act[1]].alive and N[act[1]].child.get('st') == 'run'
        if k == 'Crash':
            return act[1] in N and N[act[1]].alive and bool(self.cfg.get('journal'))
        if k == 'KillAt':
            return bool(self.cfg.get('journal')) and self.applicable(tuple(act[3])) and self._actor(act[3]) == act[1]
        if k == 'Restart':
            return act[1] in N and not N[act[1]].alive and bool(self.cfg.get('journal')) and N[act[1]].generation > 0
        return False

    def _on_kill(self, sn):
        o = sn.obj
        g = lambda name: getattr(o, '_SyncObj__' + name)
        self._atkill = {'n': sn.id, 'hist': [[int(p), c, int(v)] for (p, c, v) in getattr(o, 'hist', [])],
                        'log': [self.abs_entry(e) for e in g('raftLog')[:]], 'commit': int(g('raftCommitIndex')),
                        'term': int(g('raftCurrentTerm'))}

    def _actor(self, act):
        """the node whose code runs in this action"""
        if act[0] in ('Tick', 'Submit', 'Notice', 'Compact'):
            return act[1]
        if act[0] == 'Deliver':
            return act[2]
        return None

    def step(self, act, _inner=False):
        """Execute one action on the real objects. Returns the trace record (dict)."""
        k = act[0]
        if not _inner:
            self.rec.step_obs = []
        node = None
        if k == 'Tick':
            node = self.nodes[act[1]]
            node.clock += ADV[act[2]] if act[2] in ADV else float(act[2])      # a scale, or an explicit amount of time
            node.send_cut = int(act[3]) if len(act) > 3 else DEFAULT_CUT
            self._enter(node, lambda: node.obj.doTick(0.0), 'tick')
        elif k == 'Deliver':
            i, j = act[1], act[2]
            item = self.net.chan[(i, j)].pop(0)
            data = item.data
            node = self.nodes[j]
            if data == HELLO:
                self._hello(i, j)
            else:
                tr = self.net.tr[j]
                known = (i in tr.members) or (i in tr.ro_ids)
                if known:
                    msg = sopickle.loads(data)
                    node.last_chunk = item.meta
                    frm = self._raft_node(j, i)
                    self._enter(node, lambda: tr._onMessageReceived(frm, msg), 'msg')
        elif k == 'Submit':
            node = self.nodes[act[1]]
            self._submit(node, act[2], act[3] if len(act) > 3 else {'kind': 'op'})
        elif k == 'Break':
            self._physical_break(act[1], act[2])
        elif k == 'Notice':
            i, j = act[1], act[2]
            node = self.nodes[i]
            self.net.up.discard((i, j))
            self.net.chan[(j, i)] = []
            tr = self.net.tr[i]
            if j in tr.ro_ids:
                rn = tr.ro_ids.pop(j)
                self._enter(node, lambda: tr._onReadonlyNodeDisconnected(rn), 'notice')
            else:
                self._enter(node, lambda: tr._onNodeDisconnected(Node(j)), 'notice')
        elif k == 'Connect':
            i, j = act[1], act[2]
            node = self.nodes[i]
            self.net.alive.add(self.net.pair(i, j))
            self.net.chan[(i, j)] = [Msg(HELLO)]
            self.net.chan[(j, i)] = []
            self.net.up.add((i, j))
            tr = self.net.tr[i]
            self._enter(node, lambda: tr._onNodeConnected(Node(j)), 'connect')
        elif k == 'Compact':
            node = self.nodes[act[1]]
            node.obj.forceLogCompaction()
        elif k == 'Start':
            self._start(act[1], list(act[2]), voter=True)
        elif k == 'Stop':
            self._stop(act[1])
        elif k == 'Assert':
            pass
        elif k in ('ChildDone', 'ChildKill'):
            sn = self.nodes[act[1]]
            kill_at = int(act[2]) if k == 'ChildKill' else 0
            with open(os.path.join(self.workdir, 'child_%d.go' % sn.child_pid), 'w') as f:
                f.write(str(kill_at))
            try:
                info = os.waitid(os.P_PID, sn.child_pid, os.WEXITED | os.WNOWAIT)      # wait, but leave it to the library to reap
                ok = (info.si_code == os.CLD_EXITED and info.si_status == 0)
            except Exception:
                ok = False
            sn.child = {'st': 'ok' if ok else 'fail'}
            if ok:
                act = ('ChildDone', act[1])       # told to die at a write it never reached: it finished
        elif k == 'Crash':
            self._stop(act[1], keep_files=True)
        elif k == 'KillAt':
            # run the inner action; the process dies at its k-th primitive storage write (or, if the step
            # performs fewer writes, right after the step)
            sn = self.nodes[act[1]]
            sn.kill_at = int(act[2])
            saved = self.rec.step_obs
            try:
                self.step(tuple(act[3]), _inner=True)
            finally:
                sn.kill_at = None
            if not sn.dead and sn.obj is not None:
                self._on_kill(sn)     # fewer writes than k: the process completed the step and died right after it
            self._stop(act[1], keep_files=True)
            sn.dead = False
        elif k == 'Restart':
            sn = self.nodes[act[1]]
            for (i, j) in list(self.net.chan):
                if i == act[1]:
                    self.net.chan[(i, j)] = []      # what the previous incarnation had sent is gone by now
            self._start(act[1], self.voters if sn.voter else self.voters, voter=sn.voter)
        else:
            raise ValueError(act)
        if _inner:
            return None
        return self._record(act)

    def _hello(self, i, j):
        """first message of a new incoming connection at j: registry (re)binding"""
        node = self.nodes[j]
        tr = self.net.tr[j]
        if self.nodes[i].voter:
            if i not in tr.members:
                # unknown address: TCPTransport disconnects the incoming connection
                self.net.up.discard((j, i))
                self._physical_break(i, j)
                return
            self.net.up.add((j, i))
            self._enter(node, lambda: tr._onNodeConnected(Node(i)), 'hello')
        else:
            rn = Node(str(tr.ro_counter))
            tr.ro_hist[str(tr.ro_counter)] = i
            tr.ro_counter += 1
            tr.ro_ids[i] = rn
            self.net.up.add((j, i))
            self._enter(node, lambda: tr._onReadonlyNodeConnected(rn), 'hello')

    def _enter(self, node, fn, where):
        _Ctx.node = node
        node.sae_frame, node.sae_line, node.sae_reads, node.sae_cut_done = None, 0, 0, False
        if node.tr is not None:
            node.tr.ae_order = []
        node.writes = 0
        self._stepping = node
        if where != 'tick':
            node.send_cut = DEFAULT_CUT
        try:
            fn()
        except Exception as e:      # what the auto-tick thread would log and survive
            if node.dead:
                return
            self.rec.exc.append([node.id, where, type(e).__name__])
            self.rec.step_obs.append({'k': 'exc', 'n': node.id, 'where': where, 'type': type(e).__name__})
        finally:
            _Ctx.node = None

    def _submit(self, node, cid, spec):
        kind = spec.get('kind', 'op')
        self.cmds[cid] = dict(spec, at=node.id)
        cb = functools.partial(self.rec.on_cb, cid) if spec.get('cb', True) else None
        o = node.obj

        def call():
            if kind == 'op' and spec.get('size'):
                o.op(cid, self._pad_for(o, cid, spec['size']), callback=cb)
            elif kind == 'op':
                pad = spec.get('pad')
                if pad:
                    o.op(cid, b'x' * pad, callback=cb)
                else:
                    o.op(cid, callback=cb)
            elif kind == 'boom':
                o.boom(cid, callback=cb)
            elif kind == 'sad':
                o.ad('ad:' + spec['x'], callback=cb)
            elif kind == 'srm':
                o.rm('rm:' + spec['x'], callback=cb)
            elif kind == 'opx':
                o.opx(cid, *spec.get('args', []), callback=cb, **spec.get('kwargs', {}))
            elif kind == 'vop':
                o.vop(cid, callback=cb)
            elif kind == 'add':
                o.addNodeToCluster(Node(spec['x']), callback=cb)
            elif kind == 'rem':
                o.removeNodeFromCluster(Node(spec['x']), callback=cb)
            elif kind == 'ver':
                try:
                    o.setCodeVersion(spec['v'], callback=cb)
                except Exception as e:
                    if 'wrong version' not in str(e):
                        raise
                    # the documented rejection of an unsupported / lower version at the API
                    self.rec.step_obs.append({'k': 'rejected', 'cid': cid, 'v': spec['v']})
            else:
                raise ValueError(kind)
        self._enter(node, call, 'submit')

    def _pad_for(self, o, cid, size):
        """padding argument such that the pickled command has exactly `size` bytes (the specification's CmdSize)"""
        fid = o._methodToID[o._getFuncName('op')]
        for n in range(0, size + 1):
            pad = b'x' * n
            if len(sopickle.dumps((fid, (cid, pad)))) + 1 >= size:
                return pad          # exact where the pickle format allows it, else the next realisable size
        raise ValueError('cannot realise command size %d for %s' % (size, cid))

    # ------------------------------------------------------------------ projection
    def abs_cmd(self, data):
        """command bytes -> abstract command record (decoded from the real bytes, cached)"""
        data = bytes(data) if not isinstance(data, bytes) else data
        r = self.bytes2cmd.get(data)
        if r is not None:
            return r
        t = data[0]
        sz = len(data)
        if t == 1:
            r = {'k': 'noop', 'id': 'noop', 'sz': sz}
        elif t == 2:
            req = sopickle.loads(data[1:])
            r = {'k': req[0], 'id': req[0] + ':' + str(req[1]), 'sz': sz}
        elif t == 3:
            v = sopickle.loads(data[1:])
            r = {'k': 'ver', 'id': 'ver:' + str(v), 'sz': sz}
        elif t == 0:
            c = sopickle.loads(data[1:])
            if isinstance(c, tuple) and len(c) >= 2 and c[1]:
                r = {'k': 'op', 'id': str(c[1][0]), 'sz': sz, 'f': int(c[0])}
            else:
                r = {'k': 'op', 'id': '?', 'sz': sz, 'f': -1}
        else:
            r = {'k': '?', 'id': '?', 'sz': sz}
        self.bytes2cmd[data] = r
        return r

    def abs_entry(self, e):
        c = self.abs_cmd(e[0])
        return {'idx': int(e[1]), 'term': int(e[2]), 'cmd': c['id'], 'sz': c['sz']}

    def abs_msg(self, item):
        data = item.data
        if data == HELLO:
            return {'t': 'hello'}
        m = sopickle.loads(data)
        t = m['type']
        if t == 'request_vote':
            return {'t': 'rv', 'term': m['term'], 'lli': m['last_log_index'], 'llt': m['last_log_term']}
        if t == 'response_vote':
            return {'t': 'vote', 'term': m['term']}
        if t == 'next_node_idx':
            return {'t': 'nni', 'next': m['next_node_idx'], 'reset': bool(m['reset']), 'success': bool(m['success'])}
        if t == 'apply_command':
            return {'t': 'cmd', 'cmd': self.abs_cmd(m['command'])['id'], 'sz': len(m['command']),
                    'rid': m.get('request_id', 0)}
        if t == 'apply_command_response':
            return {'t': 'cmdr', 'rid': m['request_id'], 'idx': m.get('log_idx', 0), 'term': m.get('log_term', 0),
                    'err': m.get('error', 0) if m.get('error') is not None else 0}
        if t == 'append_entries':
            if 'prevLogIdx' in m:
                pi = m['prevLogIdx'] if m['prevLogIdx'] is not None else -1
                pt = m['prevLogTerm'] if m['prevLogTerm'] is not None else -1
                if m.get('transmission') is not None:
                    return {'t': 'aet', 'term': m['term'], 'commit': m['commit_index'], 'prevIdx': pi, 'prevTerm': pt,
                            'kind': m['transmission'], 'len': len(m['data'])}
                return {'t': 'ae', 'term': m['term'], 'commit': m['commit_index'], 'prevIdx': pi, 'prevTerm': pt,
                        'entries': [self.abs_entry(e) for e in m['entries']]}
            s = m.get('serialized')
            if s is None or s is False:
                return {'t': 'aes', 'term': m['term'], 'commit': m['commit_index'], 'has': False}
            meta = item.meta or {'sid': '?', 'off': -1}
            return {'t': 'aes', 'term': m['term'], 'commit': m['commit_index'], 'has': True,
                    'first': bool(s[1]), 'last': bool(s[2]), 'len': len(s[0]), 'sid': meta['sid'], 'off': meta['off']}
        return {'t': '?'}

    def project_node(self, sn):
        o = sn.obj
        if o is None or not sn.alive:
            if self.cfg.get('journal') and sn.generation > 0:
                return {'alive': False, 'disk': self.project_disk(sn), 'gen': int(sn.generation)}
            return {'alive': False, 'gen': int(sn.generation)}
        g = lambda name: getattr(o, '_SyncObj__' + name)
        log = g('raftLog')
        now = sn.clock
        role = ROLE[g('raftState')]
        leader = g('raftLeader')
        voted = g('votedForNodeId')
        others = sorted(n.id for n in g('otherNodes'))
        tr = sn.tr
        ro_rev = {n.id: oid for oid, n in tr.ro_ids.items()}

        def nm(nodeobj):
            # raft-level node -> simulator id (observers are known under counter ids, also after they left)
            return ro_rev.get(nodeobj.id, tr.ro_hist.get(nodeobj.id, nodeobj.id))
        nxt = {nm(n): int(v) for n, v in g('raftNextIndex').items()}
        mat = {nm(n): int(v) for n, v in g('raftMatchIndex').items()}
        fresh = []
        if role == 'L':
            dl = now - self.cfg.get('fallback', T_FALLBACK)
            fresh = sorted(nm(n) for n, t in g('lastResponseTime').items() if t > dl)
        q = []
        for cmd, cb in list(getattr(g('commandsQueue'), '_FastQueue__queue')):
            q.append({'cmd': self.abs_cmd(cmd)['id'], 'sz': len(cmd), 'cb': self._abs_cb(cb, sn)})
        wc = []
        for idx, lst in sorted(g('commandsWaitingCommit').items()):
            # (whatever container the waiters of one index are kept in: a list of (term, callback), or a single pair)
            if isinstance(lst, tuple) and len(lst) == 2 and not isinstance(lst[0], (tuple, list)):
                lst = [lst]
            for term, cb in lst:
                wc.append({'idx': int(idx), 'term': int(term), 'cb': self._abs_cb(cb, sn)})
        wr = [{'rid': int(rid), 'cb': self._abs_cb(cb)} for rid, cb in sorted(g('commandsWaitingReply').items())]
        st = {
            'alive': True,
            'role': role,
            'term': int(g('raftCurrentTerm')),
            'votedFor': voted if voted is not None else NIL,
            'votes': int(g('votesCount')),
            'leader': nm(leader) if leader is not None else NIL,
            'log': [self.abs_entry(e) for e in log[:]],
            'commit': int(g('raftCommitIndex')),
            'applied': int(g('raftLastApplied')),
            'lci': int(g('leaderCommitIndex')) if g('leaderCommitIndex') is not None else -1,
            'nextIdx': nxt,
            'matchIdx': mat,
            'fresh': fresh,
            'others': others,
            'ro': sorted(nm(n) for n in g('readonlyNodes')),
            'conn': sorted(nm(n) for n in g('connectedNodes')),
            'elDue': bool(g('raftElectionDeadline') < now),
            'hbDue': bool(role == 'L' and now > g('newAppendEntriesTime')),
            'queue': q,
            'wc': wc,
            'wr': wr,
            'rcnt': int(g('commandsLocalCounter')),
            'noopIdx': int(g('noopIDx')) if g('noopIDx') is not None else -1,
            'chgIdx': int(g('changeClusterIDx')) if g('changeClusterIDx') is not None else -1,
            'hist': [[int(p), c, int(v)] for (p, c, v) in getattr(o, 'hist', [])],
            'ver': int(g('enabledCodeVersion')),
            'ready': bool(g('onReadyCalled')),
            'force': bool(g('forceLogCompaction')),
            'lse': int(g('lastSerializedEntry')) if g('lastSerializedEntry') is not None else -1,
            'needLoad': bool(g('needLoadDumpFile')),
        }
        rt = g('recvTransmission')
        st['rtLen'] = len(rt)
        if self.cfg.get('journal'):
            from . import crashfs
            meta = crashfs.read_meta(os.path.join(self.workdir, sn.id + '.journal.meta'))
            st['metaCommit'] = int(meta.get('raftCommitIndex', 1))
            st['metaTerm'] = int(meta.get('currentTerm', 0))
            st['metaVote'] = meta.get('votedForNodeId') or NIL
        else:
            st['metaCommit'], st['metaTerm'], st['metaVote'] = 1, 0, NIL
        st['rocnt'] = int(tr.ro_counter)
        st['roid'] = {oid: int(n.id) for oid, n in tr.ro_ids.items()}
        st.update(self._project_serializer(sn))
        try:
            fn = {}
            for k, v in g('currentVersionFuncNames').items():
                if isinstance(k, str):
                    fn[k] = v
            nm_ = fn.get('vop', None)
            st['names'] = int(nm_.rsplit('_v', 1)[1]) if nm_ else 0
        except Exception:
            st['names'] = 0
        st['codeVer'] = int(sn.maxver) if self.cfg.get('versions') else 2
        st['child'] = sn.child
        return st

    def project_disk(self, sn):
        """what a restart of this node will find on disk (read-only)"""
        from . import crashfs
        jpath = os.path.join(self.workdir, sn.id + '.journal')
        ents = crashfs.read_journal(jpath)
        jlog = []
        torn = False
        for e in (ents or []):
            if e is None:
                torn = True
                break
            jlog.append(self.abs_entry(e))
        meta = crashfs.read_meta(jpath + '.meta')
        dump = 'none'
        if self.cfg.get('dump'):
            dpath = os.path.join(self.workdir, sn.id + '.dump')
            if os.path.isfile(dpath):
                with open(dpath, 'rb') as f:
                    raw = f.read()
                bi = self._blob_info(raw, sn)
                dump = bi['sid'] if bi['ok'] else 'garbage'
        return {'jlog': jlog, 'torn': torn, 'meta': int(meta.get('raftCommitIndex', 1)), 'dump': dump,
                'term': int(meta.get('currentTerm', 0)), 'votedFor': meta.get('votedForNodeId') or NIL}

    # -- snapshots ---------------------------------------------------------------------------------
    def _ser(self, sn):
        s = getattr(sn.obj, '_SyncObj__serializer')
        return s, (lambda name: getattr(s, '_Serializer__' + name))

    def _held_blob(self, sn):
        """the serialized snapshot this node holds: in memory, or the content of its dump file"""
        s, g = self._ser(sn)
        fname = g('fileName')
        if fname is None:
            return g('inMemorySerializedData')
        if not os.path.isfile(fname):
            return None
        with open(fname, 'rb') as f:
            return f.read()

    def _blob_info(self, raw, seen_at):
        """registry of every snapshot blob ever seen: identity (creator, serial) and decoded content"""
        reg = self.__dict__.setdefault('_blobs', {})
        key = hashlib.sha1(raw).digest()
        info = reg.get(key)
        if info is not None:
            return info
        try:
            with gzip.GzipFile(fileobj=io.BytesIO(raw)) as gz:
                d = sopickle.load(gz)
                # a complete snapshot is the whole byte string: one gzip member holding one pickle.  The library's own
                # loader stops at the pickle's STOP opcode, so bytes of another (abandoned) transfer behind it go
                # unnoticed there - here they make the blob a torn one ('garbage' for TransferIntegrity).
                if gz.read(1) != b'':
                    raise ValueError('bytes after the pickled snapshot')
            import zlib
            zd = zlib.decompressobj(31)
            zd.decompress(raw)
            if not zd.eof or zd.unused_data != b'':
                raise ValueError('bytes after the gzip member')
            selfdata =d[0][0] if isinstance(d[0], list) else d[0]
            seen_at.nsnap += 1
            info = {'has': True, 'ok': True, 'sid': hashlib.sha1(raw).hexdigest()[:10], 'size': len(raw),
                    'last': self.abs_entry(d[1]), 'prev': self.abs_entry(d[2]),
                    'hist': [[int(p), c, int(v)] for (p, c, v) in (selfdata or {}).get('hist', [])],
                    'cluster': sorted(n.id for n in d[3] if n is not None),
                    'ver': int((selfdata or {}).get('_SyncObj__enabledCodeVersion', 0))}
            # did the node that serialised it hold membership entries beyond the snapshot position at that moment?
            try:
                lg = getattr(seen_at.obj, '_SyncObj__raftLog')
                info['ahead'] = any(e[1] > int(d[1][1]) and bytes(e[0][:1]) == b'\x02' for e in lg[:])
            except Exception:
                info['ahead'] = False
        except Exception:
            info = {'has': True, 'ok': False, 'size': len(raw)}
        info['_raw'] = raw
        reg[key] = info
        if info['ok']:
            self.__dict__.setdefault('_newsnaps', []).append({k: v for k, v in info.items() if k not in ('_raw', 'has', 'ok')})
        return info

    def _chunk_meta(self, me, to_node, serialized):
        """called from SimTransport.send: which blob and offset is this chunk cut from"""
        sn = self.nodes[me]
        s, g = self._ser(sn)
        data = serialized[0]
        tr = g('transmissions').get(to_node)
        try:
            if g('fileName') is None:
                raw = tr['data'] if tr is not None else g('inMemorySerializedData')
                off = (tr['transmitted'] - len(data)) if tr is not None else -1
            else:
                raw = self._held_blob(sn)
                off = (tr['transmitted'] - len(data)) if tr is not None else -1
            if serialized[2] and tr is None:
                # the final (empty) chunk: the transmission record has just been dropped
                off = len(raw)
            info = self._blob_info(raw, sn)
            return {'sid': info.get('sid', '?'), 'off': int(off), 'len': len(data)}
        except Exception:
            return {'sid': '?', 'off': -1, 'len': len(data)}

    def _project_serializer(self, sn):
        s, g = self._ser(sn)
        pid = g('pid')
        tr = sn.tr
        ro_rev = {n.id: oid for oid, n in tr.ro_ids.items()}
        trans = {}
        for k, v in g('transmissions').items():
            kid = k.id if hasattr(k, 'id') else str(k)
            if kid in tr.ro_hist and kid not in ro_rev:
                continue        # transfer state kept under the id of a read-only connection that is gone: unreachable
            trans[ro_rev.get(kid, kid)] = int(v['transmitted'])
        raw = self._held_blob(sn)
        if raw is None:
            snap = 'none'
        else:
            bi = self._blob_info(raw, sn)
            snap = bi['sid'] if bi['ok'] else 'garbage'
        # incoming buffer: decomposition into chunks, verified against the real bytes
        inc = g('incomingTransmissionFile')
        if inc is None:
            sn.inc_meta = None
            incoming = {'has': False}
        else:
            if isinstance(inc, (bytes, bytearray)):
                buf = bytes(inc)
            else:
                try:
                    inc.flush()
                    with open(g('fileName') + '.1.tmp', 'rb') as f:
                        buf = f.read()
                except Exception:
                    buf = None
            cands = []
            lc = sn.last_chunk
            if sn.inc_meta is not None:
                cands.append(list(sn.inc_meta))
                if lc is not None:
                    cands.append(list(sn.inc_meta) + [lc])
            if lc is not None:
                cands.append([lc])
            cands.append([])
            chosen = None
            for c in cands:
                if buf is not None and self._chunks_bytes(c) == buf:
                    chosen = c
                    break
            sn.inc_meta = chosen
            if chosen is None:
                incoming = {'has': True, 'chunks': [], 'known': False}
            else:
                incoming = {'has': True, 'known': True,
                            'chunks': [{'sid': c['sid'], 'off': c['off'], 'len': c['len']} for c in chosen]}
        sn.last_chunk = None
        return {'serPid': int(pid) if pid in (0, -1, -2) else 1, 'serId': int(g('currentID')),
                'trans': trans, 'incoming': incoming, 'snap': snap}

    def _chunks_bytes(self, chunks):
        out = b''
        reg = self.__dict__.get('_blobs', {})
        by_sid = {v['sid']: v for v in reg.values() if v.get('ok')}
        for c in chunks:
            info = by_sid.get(c['sid'])
            if info is None or c['off'] < 0:
                return None
            out += info['_raw'][c['off']:c['off'] + c['len']]
        return out

    def _abs_cb(self, cb, sn=None):
        if cb is None:
            return {'k': 'none'}
        if isinstance(cb, tuple):
            nid = cb[0].id
            hist = sn.tr.ro_hist if sn is not None else {}
            if nid in hist:
                return {'k': 'fwd', 'n': hist[nid], 'rid': int(cb[1]), 'ro': int(nid)}
            return {'k': 'fwd', 'n': nid, 'rid': int(cb[1]), 'ro': -1}
        if isinstance(cb, functools.partial) and cb.args:
            return {'k': 'cb', 'cid': cb.args[0]}
        return {'k': 'other'}

    def _sim_id_of(self, nodeobj):
        return nodeobj.id

    def project(self):
        nodes = {nid: self.project_node(sn) for nid, sn in self.nodes.items()}
        chans = {}
        for (i, j), q in self.net.chan.items():
            if q:
                chans[(i, j)] = [self.abs_msg(d) for d in q]
        net = {'alive': sorted(sorted(p) for p in self.net.alive),
               'up': sorted([i, j] for (i, j) in self.net.up)}
        return {'nodes': nodes, 'chan': chans, 'net': net,
                'cbs': {k: list(v) for k, v in self.rec.cbs.items()},
                'nexc': len(self.rec.exc)}

    def _track_children(self):
        for sn in self.nodes.values():
            if sn.obj is None or not sn.alive:
                continue
            ser = getattr(sn.obj, '_SyncObj__serializer')
            pid = getattr(ser, '_Serializer__pid')
            if pid > 0 and sn.child.get('st') == 'none':
                # the node has just forked its dump writer; the copy it holds is the state right now
                o = sn.obj
                g = lambda name: getattr(o, '_SyncObj__' + name)
                la = g('raftLog')[:]
                ap = g('raftLastApplied')
                first = la[0][1]
                ents = la[ap - 1 - first: ap - 1 - first + 2]
                sn.child_pid = pid
                sn.child = {'st': 'run', 'content': {
                    'size': 0, 'last': self.abs_entry(ents[1]), 'prev': self.abs_entry(ents[0]),
                    'hist': [[int(p), c, int(v)] for (p, c, v) in getattr(o, 'hist', [])],
                    'cluster': sorted(n.id for n in (g('otherNodes') | {g('selfNode')}) if n is not None),
                    'ver': int(g('enabledCodeVersion')),
                    'ahead': any(e[1] > ents[1][1] and bytes(e[0][:1]) == b'\x02' for e in la)}}
            elif pid <= 0 and sn.child.get('st') in ('ok', 'fail'):
                sn.child = {'st': 'none'}       # reaped by checkSerializing
            elif pid <= 0 and sn.child.get('st') == 'run':
                sn.child = {'st': 'none'}       # killed and reaped by the library itself (a newer snapshot was installed)

    def _record(self, act):
        self._track_children()
        p = self.project()
        rec = {'a': list(act), 'obs': list(self.rec.step_obs)}
        if self.__dict__.get('_newsnaps'):
            rec['newsnaps'] = self._newsnaps
            self._newsnaps = []
        if self.__dict__.get('_atkill'):
            rec['atkill'] = self._atkill
            self._atkill = None
        stn = self.__dict__.get('_stepping')
        if stn is not None and stn.tr is not None and len(stn.tr.ae_order) > 1:
            rec['ord'] = list(stn.tr.ae_order)
        self._stepping = None
        if act[0] == 'ChildDone' and self.prev_proj is not None:
            new = p['nodes'][act[1]].get('snap')
            for info in self.__dict__.get('_blobs', {}).values():
                if info.get('ok') and info['sid'] == new:
                    rec['orc'] = {'sid': new, 'size': info['size']}
        if act[0] == 'Tick' and self.prev_proj is not None:
            # identity and size of the blob a serialization in this tick produced (an input of the specification's step)
            new = p['nodes'][act[1]].get('snap')
            serialized = p['nodes'][act[1]].get('serPid') in (-1, 1) and self.prev_proj['nodes'][act[1]].get('serPid') == 0
            if serialized and new not in (None, 'none', 'garbage'):
                for info in self._blobs.values():
                    if info.get('ok') and info['sid'] == new:
                        rec['orc'] = {'sid': new, 'size': info['size']}
        if self.nodes and any(sn.cut_hits for sn in self.nodes.values()):
            rec['cuts'] = sum(sn.cut_hits for sn in self.nodes.values())
            for sn in self.nodes.values():
                sn.cut_hits = 0
        if self.prev_proj is None:
            rec['full'] = self._full(p)
        else:
            q = self.prev_proj
            upd = {n: s for n, s in p['nodes'].items() if q['nodes'].get(n) != s}
            if upd:
                rec['upd'] = upd
            ch = []
            for key in sorted(set(p['chan']) | set(q['chan'])):
                if p['chan'].get(key) != q['chan'].get(key):
                    ch.append({'i': key[0], 'j': key[1], 'q': p['chan'].get(key, [])})
            if ch:
                rec['ch'] = ch
            if p['net'] != q['net']:
                rec['net'] = p['net']
            if p['cbs'] != q['cbs']:
                rec['cbs'] = {k: v for k, v in p['cbs'].items() if q['cbs'].get(k) != v}
            if p['nexc'] != q['nexc']:
                rec['nexc'] = p['nexc']
        self.prev_proj = p
        return rec

    def initial_record(self):
        self.prev_proj = None
        p = self.project()
        self.prev_proj = p
        return {'a': ['Init'], 'full': self._full(p), 'obs': []}

    @staticmethod
    def _full(p):
        f = dict(p)
        f['chan'] = [{'i': k[0], 'j': k[1], 'q': v} for k, v in sorted(p['chan'].items())]
        return f

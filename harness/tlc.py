"""Running TLC / SANY; building trace batches; parsing statistics and verdict lines."""
import os, re, json, subprocess, tempfile, shutil, time, concurrent.futures

ROOT = os.path.dirname(os.path.dirname(os.path.abspath(__file__)))
SPEC_DIR = os.path.join(ROOT, 'spec')
CP = '/opt/veriftools/tla/tla2tools.jar:/opt/veriftools/tla/CommunityModules-deps.jar'
NCPU = os.cpu_count() or 4


def scratch(prefix='verif_'):
    base = os.environ.get('VERIF_TMP') or tempfile.gettempdir()
    return tempfile.mkdtemp(prefix=prefix, dir=base)


def tla_set(xs, strings=True):
    return '{' + ', '.join(('"%s"' % x) if strings else str(x) for x in xs) + '}'


def tla_bool(b):
    return 'TRUE' if b else 'FALSE'


def core_constants(cfg, special=(), raisers=(), versioned=(), quiet=()):
    voters = cfg.get('voters', ['a', 'b', 'c'])
    nodes = voters + cfg.get('spares', []) + cfg.get('observers', [])
    return [
        'Nodes = %s' % tla_set(nodes),
        'Voters0 = %s' % tla_set(voters),
        'Observers = %s' % tla_set(cfg.get('observers', [])),
        'Nil = "Nil"',
        'BatchBytes = %d' % cfg.get('batch', 2 ** 16),
        'UseBatch = %s' % tla_bool(cfg.get('use_batch', True)),
        'WaitLeader = %s' % tla_bool(cfg.get('wait_leader', True)),
        'QueueSize = %d' % cfg.get('queue', 100000),
        'SpecialCids = %s' % tla_set(sorted(special)),
        'Raisers = %s' % tla_set(sorted(raisers)),
        'VersionedCids = %s' % tla_set(sorted(versioned)),
        'QuietCids = %s' % tla_set(sorted(quiet)),
        'Journal = %s' % tla_bool(cfg.get('journal', False)),
        'DumpFile = %s' % tla_bool(cfg.get('dump', False)),
        'Fork = %s' % tla_bool(cfg.get('fork', False)),
        'UserSer = %s' % tla_bool(cfg.get('userser', False)),
        'InitConnected = %s' % tla_bool(cfg.get('init_connected', False)),
        'Conform = %s' % tla_bool(not cfg.get('versions', False)),
        'Isolated0 = %s' % tla_set(cfg.get('isolated0', [])),
        'Membership = %s' % tla_bool(cfg.get('membership', False)),
        'CompactMin = %d' % cfg.get('compact_min', 10 ** 9),
        'SnapChunk = %d' % cfg.get('snap_chunk', 2 ** 16),
    ]


def run_tlc(module, cfgfile, workdir, env=None, workers=1, extra=(), timeout=3600, heap='2g', gcthreads=2,
            cwd=None):
    cmd = ['java', '-Xmx' + heap, '-Xss64m', '-XX:+UseParallelGC', '-XX:ParallelGCThreads=%d' % gcthreads,
           '-cp', CP, 'tlc2.TLC',
           '-workers', str(workers), '-metadir', os.path.join(workdir, 'meta_' + os.path.basename(cfgfile)),
           '-noGenerateSpecTE', '-config', cfgfile] + list(extra) + [module]
    e = dict(os.environ)
    if env:
        e.update(env)
    t = time.time()
    try:
        p = subprocess.run(cmd, cwd=cwd or SPEC_DIR, env=e, stdout=subprocess.PIPE, stderr=subprocess.STDOUT,
                           timeout=timeout, text=True)
        return p.returncode, p.stdout, time.time() - t
    except subprocess.TimeoutExpired as ex:
        out = ex.stdout or ''
        if isinstance(out, bytes):
            out = out.decode('utf-8', 'replace')
        subprocess.run(['pkill', '-f', os.path.join(workdir, 'meta_' + os.path.basename(cfgfile))])
        return 124, out + '\nTIMEOUT\n', time.time() - t


def sany(module, cwd=None):
    p = subprocess.run(['java', '-cp', CP, 'tla2sany.SANY', module], cwd=cwd or SPEC_DIR,
                       stdout=subprocess.PIPE, stderr=subprocess.STDOUT, text=True)
    ok = p.returncode == 0 and 'error' not in p.stdout.lower().replace('semantic errors:\n\n', '')
    return ok, p.stdout


_stat_re = re.compile(r'(\d+) states generated, (\d+) distinct states found, (\d+) states left on queue')
_depth_re = re.compile(r'The depth of the complete state graph search is (\d+)')


def parse_stats(out):
    st = {'generated': 0, 'distinct': 0, 'queue': 0, 'depth': 0, 'completed': False, 'error': None}
    for m in _stat_re.finditer(out):
        st['generated'], st['distinct'], st['queue'] = int(m.group(1)), int(m.group(2)), int(m.group(3))
    if st['distinct'] == 0:
        # interrupted by the time bound: take the last progress line
        for m in re.finditer(r'Progress\((\d+)\) at [^:]*:[^:]*:[^:]*: ([\d,]+) states generated \([^)]*\), ([\d,]+) distinct states found \([^)]*\), ([\d,]+) states left', out):
            st['depth'] = int(m.group(1))
            st['generated'], st['distinct'], st['queue'] = (int(m.group(k).replace(',', '')) for k in (2, 3, 4))
    m = _depth_re.search(out)
    if m:
        st['depth'] = int(m.group(1))
    st['completed'] = 'Model checking completed. No error has been found.' in out
    m = re.search(r'Error: (Invariant (\S+) is violated|Action property (\S+) is violated|Temporal properties were violated|.*)', out)
    if m and not st['completed']:
        st['error'] = m.group(1).strip()
        st['violated'] = m.group(2) or m.group(3)
    return st


_tuple_re = re.compile(r'^<<\s*"(DRIFT|VIOL|DONE|ACTS)"')


def parse_tuples(out, tags=('DRIFT', 'VIOL', 'DONE', 'ACTS')):
    """collect the (possibly multi-line) PrintT tuples that start with a tag"""
    res = {t: [] for t in tags}
    lines = out.split('\n')
    i = 0
    while i < len(lines):
        ln = lines[i].strip()
        m = _tuple_re.match(ln)
        if m:
            buf = ln
            depth = buf.count('<<') - buf.count('>>')
            while depth > 0 and i + 1 < len(lines):
                i += 1
                buf += ' ' + lines[i].strip()
                depth = buf.count('<<') - buf.count('>>')
            if m.group(1) in res:
                # TLC pretty-prints long tuples over several lines with extra blanks: normalise
                buf = re.sub(r'\s+', ' ', buf)
                buf = buf.replace('<< ', '<<').replace(' >>', '>>').replace('{ ', '{').replace(' }', '}').replace('[ ', '[').replace(' ]', ']')
                res[m.group(1)].append(buf)
        i += 1
    return res


def parse_verdict_line(buf):
    """<<"VIOL", tid, l, <<action...>>, {"name", ...}>>  ->  dict"""
    m = re.match(r'^<<"(\w+)", (\d+), (\d+), (<<.*>>), (\{.*?\})(?:, (TRUE|FALSE))?>>$', buf)
    if not m:
        return {'raw': buf}
    return {'tag': m.group(1), 'tid': int(m.group(2)), 'l': int(m.group(3)), 'action': m.group(4),
            'names': re.findall(r'"([^"]+)"', m.group(5)), 'rel': m.group(6)}


def special_cids(traces, kinds=None):
    special = set()
    for tr in traces:
        for st in tr:
            a = st['a']
            if a[0] == 'Submit' and len(a) > 3:
                k = a[3].get('kind', 'op')
                if (kinds is None and k not in ('op', 'boom', 'vop')) or (kinds is not None and k in kinds):
                    special.add(a[2])
    return special


def validate_core_traces(traces, cfg, workdir, label='batch', timeout=1800):
    """traces: list of step lists recorded with the same cluster cfg -> verdicts"""
    batch = {'traces': [{'steps': tr} for tr in traces]}
    tf = os.path.join(workdir, label + '.json')
    with open(tf, 'w') as f:
        json.dump(batch, f, separators=(',', ':'))
    cf = os.path.join(workdir, label + '.cfg')
    with open(cf, 'w') as f:
        f.write('SPECIFICATION TSpec\nCONSTANTS\n')
        for ln in core_constants(cfg, special_cids(traces, ('add', 'rem', 'ver', 'sad', 'srm')), special_cids(traces, ('boom',)), special_cids(traces, ('vop',)),
                                 {st['a'][2] for tr in traces for st in tr if st['a'][0] == 'Submit' and str(st['a'][2]).startswith('q')}):
            f.write('  ' + ln + '\n')
        f.write('CHECK_DEADLOCK FALSE\n')
    rc, out, wall = run_tlc('CoreTrace.tla', cf, workdir, env={'TRACE_FILE': tf}, workers=1, timeout=timeout)
    v = parse_tuples(out)
    st = parse_stats(out)
    try:
        os.unlink(tf)
    except OSError:
        pass
    return {'rc': rc, 'ok': st['completed'], 'out': out if not st['completed'] else '', 'wall': wall,
            'drift': [parse_verdict_line(b) for b in v['DRIFT']],
            'viol': [parse_verdict_line(b) for b in v['VIOL']],
            'done': len(v['DONE']), 'ntraces': len(traces), 'states': st['distinct']}


def validate_parallel(jobs, workdir, maxpar=None):
    """jobs: list of (label, cfg, traces). Runs one JVM per job, up to maxpar at once."""
    maxpar = maxpar or max(1, NCPU - 2)
    res = {}
    with concurrent.futures.ThreadPoolExecutor(max_workers=maxpar) as ex:
        futs = {ex.submit(validate_core_traces, traces, cfg, workdir, label): label for (label, cfg, traces) in jobs}
        for fu in concurrent.futures.as_completed(futs):
            res[futs[fu]] = fu.result()
    return res

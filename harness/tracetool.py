"""Reconstruct full states from a delta-encoded implementation trace; pretty printing for diagnosis."""
import json, copy


def states(trace):
    """yield (step index (1-based, as TLC's l), action, full state dict) for each record"""
    cur = None
    for k, r in enumerate(trace):
        if 'full' in r:
            cur = {'nodes': dict(r['full']['nodes']),
                   'chan': {(c['i'], c['j']): c['q'] for c in r['full']['chan']},
                   'net': r['full']['net'], 'cbs': dict(r['full']['cbs']), 'nexc': r['full']['nexc']}
        else:
            cur = {'nodes': dict(cur['nodes']), 'chan': dict(cur['chan']), 'net': cur['net'],
                   'cbs': dict(cur['cbs']), 'nexc': cur['nexc']}
            for n, s in r.get('upd', {}).items():
                cur['nodes'][n] = s
            for c in r.get('ch', []):
                if c['q']:
                    cur['chan'][(c['i'], c['j'])] = c['q']
                else:
                    cur['chan'].pop((c['i'], c['j']), None)
            if 'net' in r:
                cur['net'] = r['net']
            cur['cbs'].update(r.get('cbs', {}))
            if 'nexc' in r:
                cur['nexc'] = r['nexc']
        yield k + 1, r['a'], cur


def brief_node(s):
    if not s.get('alive'):
        return 'DEAD'
    log = ' '.join('%d:%d:%s' % (e['idx'], e['term'], e['cmd']) for e in s['log'][-8:])
    return '%s t%d v=%s L=%s ci=%d la=%d lci=%d nx=%s mx=%s conn=%s q=%d wc=%s wr=%s hist=%d log[%d]=%s' % (
        s['role'], s['term'], s['votedFor'], s['leader'], s['commit'], s['applied'], s['lci'],
        s['nextIdx'], s['matchIdx'], ''.join(s['conn']), len(s['queue']),
        [(w['idx'], w['term'], w['cb'].get('cid')) for w in s['wc']], [w['rid'] for w in s['wr']],
        len(s['hist']), len(s['log']), log)


def show(trace, lo, hi):
    for k, a, st in states(trace):
        if lo <= k <= hi:
            print('--- step', k, a)
            for n in sorted(st['nodes']):
                print('   ', n, brief_node(st['nodes'][n]))
            for (i, j), q in sorted(st['chan'].items()):
                print('    ', i + '>' + j, json.dumps(q)[:300])


def coverage(trace, cov=None):
    """count what a trace exercised: action kinds, delivered message types, notable events"""
    import collections
    cov = cov if cov is not None else collections.Counter()
    prev = None
    for k, a, st in states(trace):
        if prev is not None:
            kind = a[0]
            if kind == 'Deliver':
                q = prev['chan'].get((a[1], a[2])) or [{'t': '?'}]
                m = q[0]
                t = m['t']
                if t == 'aes':
                    t += ':none' if not m.get('has') else (':first' if m.get('first') else '') + (':last' if m.get('last') else '') + (':mid' if not m.get('first') and not m.get('last') else '')
                if t == 'nni':
                    t += ':reset' if m['reset'] else (':ok' if m['success'] else ':nak')
                if t == 'ae':
                    t += ':hb' if not m['entries'] else ':ents'
                cov['deliver:' + t] += 1
            else:
                cov[kind + (':' + a[2] if kind == 'Tick' else '')] += 1
            for n, s in st['nodes'].items():
                p = prev['nodes'].get(n)
                if not p or not s.get('alive') or not p.get('alive'):
                    continue
                if s['role'] == 'L' and p['role'] != 'L': cov['ev:becomeLeader'] += 1
                if s['role'] != 'L' and p['role'] == 'L': cov['ev:stepDown:' + kind] += 1
                if s['log'][0]['idx'] > p['log'][0]['idx'] and kind == 'Tick': cov['ev:compacted'] += 1
                if s.get('snap') != p.get('snap'):
                    cov['ev:snap:' + ('serialize' if kind == 'Tick' else 'install' if s['snap'] not in ('garbage',) else 'garbage')] += 1
                if len(s['log']) < len(p['log']) and kind == 'Deliver' and s.get('snap') == p.get('snap'): cov['ev:truncate'] += 1
                if s['commit'] > p['commit']: cov['ev:commitAdvance:' + s['role']] += 1
                if len(s['hist']) > len(p['hist']): cov['ev:apply'] += 1
            if st['nexc'] != prev['nexc']: cov['ev:exception'] += 1
            for c, v in st['cbs'].items():
                if len(v) > len(prev['cbs'].get(c, [])):
                    cov['cb:err%d' % v[-1][1]] += 1
        prev = st
    return cov

"""Reconstruct full states from a delta-encoded implementation trace; pretty printing for diagnosis."""
import json, copy


def states(trace):
    """yield (step index (1-based, as TLC's l), action, full state dict) for each record"""
    cur = None
    for k, r in enumerate(trace):
        if 'full' in r:
            cur = {'nodes': dict(r['full']['nodes']),
                   'chan': {(c['i'], c['j']): c['q'] for c in r['full']['chan']},
                   'net': r['full']['net'], 'cbs': dict(r['full']['cbs']), 'nexc': r['full']['nexc']}
        else:
            cur = {'nodes': dict(cur['nodes']), 'chan': dict(cur['chan']), 'net': cur['net'],
                   'cbs': dict(cur['cbs']), 'nexc': cur['nexc']}
            for n, s in r.get('upd', {}).items():
                cur['nodes'][n] = s
            for c in r.get('ch', []):
                if c['q']:
                    cur['chan'][(c['i'], c['j'])] = c['q']
                else:
                    cur['chan'].pop((c['i'], c['j']), None)
            if 'net' in r:
                cur['net'] = r['net']
            cur['cbs'].update(r.get('cbs', {}))
            if 'nexc' in r:
                cur['nexc'] = r['nexc']
        yield k + 1, r['a'], cur


def brief_node(s):
    if not s.get('alive'):
        return 'DEAD'
    log = ' '.join('%d:%d:%s' % (e['idx'], e['term'], e['cmd']) for e in s['log'][-8:])
    return '%s t%d v=%s L=%s ci=%d la=%d lci=%d nx=%s mx=%s conn=%s q=%d wc=%s wr=%s hist=%d log[%d]=%s' % (
        s['role'], s['term'], s['votedFor'], s['leader'], s['commit'], s['applied'], s['lci'],
        s['nextIdx'], s['matchIdx'], ''.join(s['conn']), len(s['queue']),
        [(w['idx'], w['term'], w['cb'].get('cid')) for w in s['wc']], [w['rid'] for w in s['wr']],
        len(s['hist']), len(s['log']), log)


def show(trace, lo, hi):
    for k, a, st in states(trace):
        if lo <= k <= hi:
            print('--- step', k, a)
            for n in sorted(st['nodes']):
                print('   ', n, brief_node(st['nodes'][n]))
            for (i, j), q in sorted(st['chan'].items()):
                print('    ', i + '>' + j, json.dumps(q)[:300])

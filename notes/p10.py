from sim import *
import logging, tempfile, os, gzip, pickle; logging.disable(logging.CRITICAL)
d = tempfile.mkdtemp()
net = Net(); objs = {}
for k, i in enumerate('ab'):
    FakeRandom.v = k / 2.0
    objs[i] = Obj(net, i, [j for j in 'ab' if j != i], logCompactionBatchSize=40, logCompactionMinEntries=10**6,
                  logCompactionMinTime=10**6, fullDumpFile=d + '/dump_' + i, useFork=False)
a, b = objs['a'], objs['b']
net.connect('a', 'b')
a._SyncObj__raftElectionDeadline = Clock.now - 1
def run(n=3):
    for r in range(n):
        Clock.now += 0.2; a.doTick(0.0); b.doTick(0.0); net.deliver_all()
run()
for k in range(6): a.add('x%d' % k)
run(4)
a.forceLogCompaction(); run(3)
print('a log', a.log(), 'b dump exists', os.path.exists(d + '/dump_b'))
# replace b by a fresh empty node with the same id (or simply a lagging one): needs snapshot
net.disconnect('a', 'b')
FakeRandom.v = 0.5
b2 = Obj(net, 'b', ['a'], logCompactionBatchSize=40, logCompactionMinEntries=10**6, logCompactionMinTime=10**6,
         fullDumpFile=d + '/dump_b2', useFork=False)
net.connect('a', 'b')
Clock.now += 0.2; a.doTick(0.0); net.deliver('a', 'b', 1); net.deliver('b', 'a', 10)   # AE(prev) -> reset next=2
import pysyncobj.syncobj as so_
def creeping():
    Clock.now += 0.03
    return Clock.now
Clock.now += 0.2; so_.monotonicTime = creeping
a.doTick(0.0)
so_.monotonicTime = lambda: Clock.now
chunks = net.peek('a', 'b')
print('a->b msgs:', len(chunks), [(len(m['serialized'][0]), m['serialized'][1], m['serialized'][2]) for m in chunks if m.get('serialized')][:4], '...')
net.deliver('a', 'b', 1)                     # b2 receives the first chunk only
# silent replace: the dialer (b) lost the connection and re-dialled; acceptor a never noticed; in-flight a->b data is lost
lost = len(net.chan[('a', 'b')]); net.chan[('a', 'b')].clear()
for _ in range(2): pass
net.tr['b']._onNodeDisconnected(Node('a')); net.tr['b']._onNodeConnected(Node('a'))
print('lost in flight:', lost, ' a still thinks b connected:', a.isNodeConnected(Node('b')))
def readable(p):
    if not os.path.exists(p): return 'absent'
    try:
        with gzip.open(p) as f: pickle.load(f); return 'ok'
    except Exception as e: return 'TORN(%s)' % type(e).__name__
seen = []
for r in range(6):
    Clock.now += 0.2; a.doTick(0.0)
    while net.chan[('a', 'b')]:
        net.deliver('a', 'b', 1); seen.append(readable(d + '/dump_b2'))
    net.deliver_all(); b2.doTick(0.0); net.deliver_all()
print('dump_b2 status after each delivered message:', seen)
print('b2 la', b2.raftLastApplied, 'applied', b2.applied, 'log', b2.log())
p = d + '/dump_b2'
if os.path.exists(p):
    try:
        with gzip.open(p) as f: pickle.load(f); print('b2 dump file readable')
    except Exception as e:
        print('b2 dump file on disk is TORN:', type(e).__name__, e)
else:
    print('no dump file for b2')

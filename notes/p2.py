import sys, os, tempfile
sys.path.insert(0, '/repo')
from pysyncobj.journal import createJournal
from pysyncobj.batteries import ReplList, ReplQueue
# C08/C11: record larger than 2x file
d = tempfile.mkdtemp()
j = createJournal(d + '/j')
try:
    j.add(b'x' * 5000, 2, 1)
    print('journal big add ok', len(j))
except Exception as e:
    print('journal big add FAILS:', type(e).__name__, e)
j2 = createJournal(d + '/j2')
for i in range(5): j2.add(b'y' * 300, i + 1, 1)
print('j2 len', len(j2)); j2._destroy()
j2 = createJournal(d + '/j2'); print('j2 reopen len', len(j2))
# C15
l = ReplList()
l.append(1, _doApply=True); l.append(2, _doApply=True)
try:
    print('pop()', l.pop(_doApply=True))
except Exception as e:
    print('ReplList.pop() FAILS:', type(e).__name__, e)
q = ReplQueue()
print('ReplQueue(maxsize=0).full() on empty:', q.full())

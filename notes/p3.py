from sim import *
# P-a: raising method
net, objs = mk(['a', 'b', 'c'])
elect(net, objs, 'a')
res = []
objs['a'].boom(1, callback=lambda r, e: res.append(('boom', r, e)))
objs['a'].add(7, callback=lambda r, e: res.append(('add', r, e)))
errs = 0
for r in range(10):
    Clock.now += 0.2
    for o in objs.values():
        try: o.doTick(0.0)
        except Exception as e: errs += 1; last = repr(e)
    try: net.deliver_all()
    except Exception as e: errs += 1; last = repr(e)
print('P-a raising method: exceptions escaping doTick:', errs, last if errs else '', 'callbacks:', res)
show(objs)

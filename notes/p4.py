from sim import *
import pickle
# P-b: big entry chunking band
B = 1000
bad = []
for size in list(range(B - 80, B + 10)) + list(range(2 * B - 80, 2 * B + 10)):
    net, objs = mk(['a', 'b'], appendEntriesBatchSizeBytes=B)
    elect(net, objs, 'a')
    objs['a'].add(b'z' * size)
    err = None
    try:
        for r in range(6):
            Clock.now += 0.2
            for o in objs.values(): o.doTick(0.0)
            net.deliver_all()
    except Exception as e:
        err = type(e).__name__
    ok = objs['b'].applied == objs['a'].applied and len(objs['a'].applied) == 1
    if err or not ok:
        cmdlen = len(objs['a']._SyncObj__raftLog[-1][0])
        bad.append((size, cmdlen, err, ok))
print('P-b failing sizes (argsize, cmdlen, exc, replicated_ok):', bad[:5], '...', len(bad))

from sim import *
# P-f: follower truncates on every append_entries (not only on conflict) + nextIndex regress on stale ack
net, objs = mk(['a', 'b', 'c'], appendEntriesBatchSizeBytes=90)   # two commands per message
a, b, c = objs['a'], objs['b'], objs['c']
elect(net, objs, 'a')
net.disconnect('a', 'c'); net.disconnect('b', 'c')
res = []
for k in range(3, 12):
    a.add('cmd-%d-xxxxxxxxxxxx' % k, callback=lambda r, e, k=k: res.append((k, r, e)))
Clock.now += 0.2; a.doTick(0.0)          # queue -> log (3 entries) ; AEs go out next tick
Clock.now += 0.2; a.doTick(0.0)
print('a->b in flight:', [(m.get('prevLogIdx'), [e[1] for e in m.get('entries', [])], m.get('transmission')) for m in net.peek('a', 'b')], len(a._SyncObj__raftLog[-1][0]))
net.deliver('a', 'b', 10)                # b appends 3,4,5 and acks each
print('b log', b.log(), 'acks:', [(m['next_node_idx'], m['success']) for m in net.peek('b', 'a')])
# deliver only the FIRST ack (there may be an ack for a heartbeat first)
while True:
    m = net.peek('b', 'a')[0]
    net.deliver('b', 'a', 1)
    if m['next_node_idx'] == 6: break
print('a nextIndex[b] after first ack:', a._SyncObj__raftNextIndex[Node('b')], 'match', a._SyncObj__raftMatchIndex[Node('b')])
Clock.now += 0.2; a.doTick(0.0)          # resend from 4: AE(prev3,[4]) AE(prev4,[5])
print('a->b in flight:', [(m.get('prevLogIdx'), [e[1] for e in m.get('entries', [])], m.get('transmission')) for m in net.peek('a', 'b')], len(a._SyncObj__raftLog[-1][0]))
net.deliver('b', 'a', 10)                # remaining acks: match=5
Clock.now += 0.01; a.doTick(0.0)
print('a commit', a.raftCommitIndex, 'applied', a.applied, 'callbacks', res)
net.deliver('a', 'b', 1)                 # b handles AE(prev3,[4]) -> truncates 5
print('b log after re-sent AE:', b.log())
net.disconnect('a', 'b')                 # a is cut off; AE(prev4,[5]) is lost
net.connect('b', 'c')
b._SyncObj__raftElectionDeadline = Clock.now - 1
for r in range(8):
    Clock.now += 0.2
    b.doTick(0.0); c.doTick(0.0); net.deliver_all()
b.add('other-xxxxxxxxxxxx')
for r in range(8):
    Clock.now += 0.2
    b.doTick(0.0); c.doTick(0.0); net.deliver_all()
show(objs)

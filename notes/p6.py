from sim import *
# P-g: commit index bumped by a PARTIAL snapshot chunk on a deposed leader with stale uncommitted entries
net, objs = mk(['a', 'b', 'c'], logCompactionBatchSize=30, logCompactionMinEntries=10**6, logCompactionMinTime=10**6)
a, b, c = objs['a'], objs['b'], objs['c']
elect(net, objs, 'a')
net.disconnect('a', 'b'); net.disconnect('a', 'c')
res = []
for k in (3, 4):
    a.add('stale-%d' % k, callback=lambda r, e, k=k: res.append(('stale', k, r, e)))
Clock.now += 0.2; a.doTick(0.0)
print('a log', a.log())
b._SyncObj__raftElectionDeadline = Clock.now - 1
for r in range(5):
    Clock.now += 0.2; b.doTick(0.0); c.doTick(0.0); net.deliver_all()
for k in range(5):
    b.add('good-%d' % k)
for r in range(5):
    Clock.now += 0.2; b.doTick(0.0); c.doTick(0.0); net.deliver_all()
b.forceLogCompaction()
for r in range(3):
    Clock.now += 0.2; b.doTick(0.0); c.doTick(0.0); net.deliver_all()
print('b log after compaction', b.log(), 'commit', b.raftCommitIndex)
# keep a a "leader" (avoid fallback) - it is; heal a<->b
net.connect('a', 'b')
Clock.now += 0.2; b.doTick(0.0)
msgs = net.peek('b', 'a')
print('b->a:', [(m['type'], m.get('prevLogIdx'), (len(m['serialized'][0]), m['serialized'][1], m['serialized'][2]) if m.get('serialized') else None, m['commit_index']) for m in msgs][:6], '... n=', len(msgs))
net.deliver('b', 'a', 1)           # first (partial) snapshot chunk
print('a after 1st chunk: commit', a.raftCommitIndex, 'lastApplied', a.raftLastApplied)
Clock.now += 0.01
a.doTick(0.0)
print('a after tick: applied', a.applied, 'callbacks', res)
print('b applied', b.applied[:2])

from sim import *
import logging; logging.disable(logging.CRITICAL)
class VObj(SyncObj):
    def __init__(self, net, me, others, **kw):
        conf = SyncObjConf(autoTick=False, **kw)
        super().__init__(Node(me), [Node(o) for o in others], conf, transport=SimTransport(net, me), nodeClass=Node)
        self.applied = []
    @replicated
    def f(self, v): self.applied.append((self.raftLastApplied + 1, 'f_v0', v))
    @replicated(ver=1)
    def f(self, v): self.applied.append((self.raftLastApplied + 1, 'f_v1', v))
class OldObj(SyncObj):
    def __init__(self, net, me, others, **kw):
        conf = SyncObjConf(autoTick=False, **kw)
        super().__init__(Node(me), [Node(o) for o in others], conf, transport=SimTransport(net, me), nodeClass=Node)
        self.applied = []
    @replicated
    def f(self, v): self.applied.append((self.raftLastApplied + 1, 'f_v0', v))
def run(objs, net, n=6):
    for r in range(n):
        Clock.now += 0.2
        for o in objs.values(): o.doTick(0.0)
        net.deliver_all()
# (1) node lacking the enabled version: must stop applying, not skip
net = Net(); objs = {}
for k, (i, cls) in enumerate((('a', VObj), ('b', VObj), ('c', OldObj))):
    FakeRandom.v = k / 3.0
    objs[i] = cls(net, i, [j for j in 'abc' if j != i])
for i, j in (('a', 'b'), ('a', 'c'), ('b', 'c')): net.connect(i, j)
a, b, c = objs['a'], objs['b'], objs['c']
a._SyncObj__raftElectionDeadline = Clock.now - 1; run(objs, net)
a.f(1); a.setCodeVersion(1); 
Clock.now += 0.2; a.doTick(0.0)
a.f(2); a.f(3)
run(objs, net)
print('new node a:', a.applied, 'la', a.raftLastApplied)
print('old node c:', c.applied, 'la', c.raftLastApplied, 'ci', c.raftCommitIndex)
run(objs, net, 3)
print('old node c later:', c.applied, 'la', c.raftLastApplied)
# (2) name table after snapshot load
net = Net(); objs = {}
for k, i in enumerate('ab'):
    FakeRandom.v = k / 2.0
    objs[i] = VObj(net, i, [j for j in 'ab' if j != i], logCompactionMinEntries=10**6, logCompactionMinTime=10**6)
net.connect('a', 'b'); a, b = objs['a'], objs['b']
a._SyncObj__raftElectionDeadline = Clock.now - 1; run(objs, net)
net.disconnect('a', 'b')     # b lags
objs2 = {'a': a}
# single node can't commit alone in 2-cluster; instead keep b connected but compact & force snapshot to b via lag
net.connect('a', 'b')
a.setCodeVersion(1); run(objs, net)
a.f(10); run(objs, net)
a.forceLogCompaction(); run(objs, net, 3)
print('a version', a.getCodeVersion())
# fresh node b2 replaces b (same id), catches up by snapshot
net.disconnect('a', 'b')
FakeRandom.v = 0.5
b2 = VObj(net, 'b', ['a'], logCompactionMinEntries=10**6, logCompactionMinTime=10**6)
objs = {'a': a, 'b': b2}
net.connect('a', 'b'); run(objs, net, 6)
print('b2 version', b2.getCodeVersion(), 'la', b2.raftLastApplied, 'name table:', b2._SyncObj__currentVersionFuncNames)
b2.f(11); run(objs, net)
print('a applied', a.applied[-2:], ' b2 applied', b2.applied[-2:])

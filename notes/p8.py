from sim import *
import tempfile, os, logging; logging.disable(logging.CRITICAL)
d = tempfile.mkdtemp()
def mkone(net, dump=True):
    FakeRandom.v = 0.0
    kw = dict(journalFile=d + '/j', useFork=False, logCompactionMinEntries=10**6, logCompactionMinTime=10**6)
    if dump: kw['fullDumpFile'] = d + '/dump'
    return Obj(net, 'a', [], **kw)
def run(o, n=4):
    for r in range(n):
        Clock.now += 1.1; o.doTick(0.0)
# (1) kill between dump write and journal trim
net = Net(); a = mkone(net)
a._SyncObj__raftElectionDeadline = Clock.now - 1; run(a)
res = []
for k in range(4): a.add('v%d' % k, callback=lambda r, e, k=k: res.append((k, e)))
run(a)
print('before: log', a.log(), 'applied', a.applied, 'cb', res)
a.forceLogCompaction()
for k in range(4, 6): a.add('v%d' % k, callback=lambda r, e, k=k: res.append((k, e)))
Clock.now += 1.1; a.doTick(0.0)            # tick N: 7,8 appended, then dump written inline at lastApplied=6; journal trimmed on tick N+1
# do not tick again: "kill -9" here: drop the object without destroy(); but first let the entries that were acked be in journal
print('dump exists:', os.path.exists(d + '/dump'), ' journal at kill:', a.log())
a._SyncObj__raftLog._destroy(); del a
net = Net(); a = mkone(net)
print('after restart, before tick: log', a.log(), 'commit', a.raftCommitIndex)
run(a, 1)
print('after restart+tick: log', a.log(), 'applied', a.applied, 'la', a.raftLastApplied)

from sim import *
import logging; logging.disable(logging.CRITICAL)
net, objs = mk(['a', 'b', 'c'], logCompactionMinEntries=10**6, logCompactionMinTime=10**6)
a, b, c = objs['a'], objs['b'], objs['c']
elect(net, objs, 'a')
def run(os_, n=3):
    for r in range(n):
        Clock.now += 0.2
        for o in os_: o.doTick(0.0)
        net.deliver_all()
net.disconnect('a', 'c'); net.disconnect('b', 'c')
for k in range(4): a.add('x%d' % k)
run([a, b], 4)
# b takes over (a silent), c still cut off
net.disconnect('a', 'b')
net.connect('b', 'c')
b._SyncObj__raftElectionDeadline = Clock.now - 1
Clock.now += 0.01; b.doTick(0.0)                      # b candidate, asks c
net.deliver('b', 'c', 10); net.deliver('c', 'b', 10)  # c votes, b leader; b's become-leader sends AE(prev=last)
print('b leader', b._isLeader(), 'b log', b.log(), 'nextIndex[c]', b._SyncObj__raftNextIndex[Node('c')])
Clock.now += 0.2; b.doTick(0.0)                       # second heartbeat with the same prev
net.deliver('b', 'c', 10)
print('c->b pending:', [(m.get('next_node_idx'), m.get('reset'), m.get('success')) for m in net.peek('c', 'b')])
net.deliver('c', 'b', 1)                              # r1: reset -> nextIndex[c]=3
b.add('y0'); b.add('y1')
Clock.now += 0.2; b.doTick(0.0)                       # sends 3..7 to c ; queue -> log
net.deliver('b', 'c', 10)
Clock.now += 0.2; b.doTick(0.0); net.deliver('b', 'c', 10)
# c acks are queued BEHIND the stale resets in c->b; b has only its own + ... needs c's ack to commit (a is away). deliver everything except keep one stale reset? FIFO: stale resets come first.
print('c->b pending:', [(m.get('next_node_idx'), m.get('reset'), m.get('success')) for m in net.peek('c', 'b')])
# --- continue: compaction on b, then the stale reset, then the acks
res = []
b.forceLogCompaction()
Clock.now += 0.2; b.doTick(0.0); net.deliver('b', 'c', 10)
Clock.now += 0.2; b.doTick(0.0); net.deliver('b', 'c', 10)
print('b log after compaction', b.log(), 'b la', b.raftLastApplied, '| c log', c.log(), 'c la', c.raftLastApplied)
net.deliver('c', 'b', 1)                              # the STALE reset (next=3)
print('b nextIndex[c] after stale reset:', b._SyncObj__raftNextIndex[Node('c')])
Clock.now += 0.2; b.doTick(0.0)
print('b->c:', [(m['type'], 'snap' if m.get('serialized') else m.get('prevLogIdx')) for m in net.peek('b', 'c')])
net.deliver('b', 'c', 10)
print('c after snapshot install: log', c.log(), 'la', c.raftLastApplied, 'ci', c.raftCommitIndex)
net.deliver('c', 'b', 100)                            # old acks (8, 10) + new replies
Clock.now += 0.01; b.doTick(0.0)
print('b commit', b.raftCommitIndex, 'applied', b.applied[-2:], ' matchIndex[c]', b._SyncObj__raftMatchIndex[Node('c')])
# b is cut off; a and c form the majority
net.disconnect('b', 'c'); net.connect('a', 'c')
a._SyncObj__raftElectionDeadline = Clock.now - 1
for r in range(6):
    Clock.now += 0.2; a.doTick(0.0); c.doTick(0.0); net.deliver_all()
(a if a._isLeader() else c).add('z0')
for r in range(6):
    Clock.now += 0.2; a.doTick(0.0); c.doTick(0.0); net.deliver_all()
show(objs)

SPECIFICATION Spec
CONSTANTS
  Nodes = {a, b, c}
  Cmds = {x, y}
  MaxTerm = 2
  MaxLog = 4
  MaxChan = 2
  MaxBatch = 1
  Nil = Nil
CONSTRAINT Bound
INVARIANT ApplyAgreement
INVARIANT OneLeaderPerTerm
INVARIANT LogMatching
CHECK_DEADLOCK FALSE

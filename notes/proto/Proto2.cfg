SPECIFICATION Spec
CONSTANTS
  Nodes = {a, b, c}
  Cmds = {x, y}
  MaxTerm = 2
  MaxLog = 4
  MaxChan = 2
  MaxBatch = 1
  MaxFaults = 1
  Nil = Nil
CONSTRAINT Bound
INVARIANT ApplyAgreement
INVARIANT OneLeaderPerTerm
INVARIANT LogMatching
SYMMETRY Sym
CHECK_DEADLOCK FALSE

SPECIFICATION Spec
CONSTANTS
  Nodes = {a, b, c}
  Cmds = {x, y, z}
  MaxTerm = 1
  MaxLog = 5
  MaxChan = 3
  MaxBatch = 1
  MaxFaults = 1
  Electors = {a}
  Isolated = {c}
  SubmitAt = {a}
  Nil = Nil
CONSTRAINT Bound
INVARIANT ApplyAgreement
INVARIANT OneLeaderPerTerm
INVARIANT LogMatching
INVARIANT AckedStillStored
CHECK_DEADLOCK FALSE

------------------------------- MODULE Proto3 -------------------------------
(* FEASIBILITY PROTOTYPE (round 0) - not the deliverable specification.      *)
(* Election + replication + commit + apply of pysyncobj/syncobj.py at the    *)
(* implementation's grain of atomicity: one action per _onTick, one per      *)
(* __onMessageReceived.  Used only to measure TLC state counts / throughput  *)
(* and to try full-state trace validation against the real code.             *)
EXTENDS Naturals, Sequences, FiniteSets, TLC

CONSTANTS Nodes, Cmds, MaxTerm, MaxLog, MaxChan, MaxBatch, MaxFaults, Electors, Isolated, SubmitAt, Nil

VARIABLES node, chan, conn, applied, unused, faults
vars == <<node, chan, conn, applied, unused, faults>>

Others(n) == Nodes \ {n}
Majority(k) == 2 * k > Cardinality(Nodes)      \* count > (len(others)+1)/2

Noop == "noop"
Entry(i, t, c) == [idx |-> i, term |-> t, cmd |-> c]

LastIdx(s)  == s.log[Len(s.log)].idx
LastTerm(s) == s.log[Len(s.log)].term
FirstIdx(s) == s.log[1].idx
\* __getEntries(fromIdx): suffix of the log starting at absolute index fromIdx
EntriesFrom(s, i) == IF i < FirstIdx(s) THEN <<>> ELSE SubSeq(s.log, i - FirstIdx(s) + 1, Len(s.log))
TermAt(s, i) == s.log[i - FirstIdx(s) + 1].term
HasIdx(s, i) == i >= FirstIdx(s) /\ i <= LastIdx(s)

InitNode == [role |-> "F", term |-> 0, votedFor |-> Nil, votes |-> 0, leader |-> Nil,
             log |-> <<Entry(1, 0, Noop)>>, commit |-> 1, applied |-> 1,
             nextIdx |-> [m \in Nodes |-> 0], matchIdx |-> [m \in Nodes |-> 0],
             elDue |-> FALSE, hbDue |-> FALSE, queue |-> <<>>]

Init == /\ node = [n \in Nodes |-> InitNode]
        /\ chan = [i \in Nodes |-> [j \in Nodes |-> <<>>]]
        /\ conn = [i \in Nodes |-> IF i \in Isolated THEN {} ELSE Others(i) \ Isolated]
        /\ applied = [n \in Nodes |-> <<>>]
        /\ unused = Cmds
        /\ faults = 0

-----------------------------------------------------------------------------
(* A step of node n yields a new node record and an outbox: a function       *)
(* dest -> sequence of messages (transport.send drops if not connected).     *)
EmptyOut == [m \in Nodes |-> <<>>]
Send(out, n, m, msg) == IF m \in conn[n] THEN [out EXCEPT ![m] = Append(@, msg)] ELSE out

\* __sendAppendEntries for one follower m: the while-loop as a recursive operator
RECURSIVE AEMsgs(_, _, _)
AEMsgs(s, next, first) ==
  IF ~(next <= LastIdx(s) \/ first) THEN [msgs |-> <<>>, next |-> next]
  ELSE LET hi   == IF next + MaxBatch - 1 < LastIdx(s) THEN next + MaxBatch - 1 ELSE LastIdx(s)
           ents == IF next <= LastIdx(s) THEN SubSeq(s.log, next - FirstIdx(s) + 1, hi - FirstIdx(s) + 1) ELSE <<>>
           nn   == IF ents # <<>> THEN hi + 1 ELSE next
           msg  == [type |-> "ae", term |-> s.term, commit |-> s.commit, entries |-> ents,
                    prevIdx |-> next - 1, prevTerm |-> TermAt(s, next - 1)]
           rest == AEMsgs(s, nn, FALSE)
       IN [msgs |-> <<msg>> \o rest.msgs, next |-> rest.next]

RECURSIVE SendAEAll(_, _, _, _)
SendAEAll(n, s, out, todo) ==
  IF todo = {} THEN [s |-> [s EXCEPT !.hbDue = FALSE], out |-> out]
  ELSE LET m == CHOOSE x \in todo : TRUE
       IN IF m \notin conn[n] THEN SendAEAll(n, s, out, todo \ {m})
          ELSE LET r == AEMsgs(s, s.nextIdx[m], TRUE)
               IN SendAEAll(n, [s EXCEPT !.nextIdx[m] = r.next],
                            [out EXCEPT ![m] = @ \o r.msgs], todo \ {m})

BecomeLeader(n, s, out) ==
  LET s1 == [s EXCEPT !.leader = n, !.role = "L",
                      !.nextIdx = [m \in Nodes |-> IF m = n THEN s.nextIdx[m] ELSE LastIdx(s) + 1],
                      !.matchIdx = [m \in Nodes |-> 0]]
      s2 == [s1 EXCEPT !.log = Append(@, Entry(LastIdx(s) + 1, s.term, Noop))]
  IN SendAEAll(n, s2, out, Others(n))

ElectionStep(n, s, out, el) ==
  IF s.role \in {"F", "C"} /\ el /\ conn[n] # {}
  THEN LET s1 == [s EXCEPT !.elDue = FALSE, !.leader = Nil, !.role = "C", !.term = @ + 1,
                           !.votedFor = n, !.votes = 1]
           rv == [type |-> "rv", term |-> s1.term, lastIdx |-> LastIdx(s), lastTerm |-> LastTerm(s)]
           RECURSIVE SendAll(_, _)
           SendAll(o, todo) == IF todo = {} THEN o
                               ELSE LET m == CHOOSE x \in todo : TRUE IN SendAll(Send(o, n, m, rv), todo \ {m})
           out1 == SendAll(out, Others(n))
       IN IF Majority(s1.votes) THEN BecomeLeader(n, s1, out1) ELSE [s |-> s1, out |-> out1]
  ELSE [s |-> s, out |-> out]

\* leader commit rule: largest index stored by a majority whose entry has the current term
CommitStep(n, s) ==
  IF s.role # "L" THEN s
  ELSE LET ok(i) == /\ Majority(1 + Cardinality({m \in Others(n) : s.matchIdx[m] >= i}))
                    /\ TermAt(s, i) = s.term
           cand == {i \in (s.commit + 1)..LastIdx(s) : ok(i)}
       IN IF cand = {} THEN s ELSE [s EXCEPT !.commit = CHOOSE i \in cand : \A j \in cand : j <= i]

\* apply loop: returns node record and the commands executed
ApplyStep(s) ==
  IF s.commit > s.applied
  THEN LET ents == SubSeq(s.log, s.applied + 1 - FirstIdx(s) + 1, s.commit - FirstIdx(s) + 1)
       IN [s |-> [s EXCEPT !.applied = s.commit], done |-> ents]
  ELSE [s |-> s, done |-> <<>>]

\* _checkCommandsToApply: leader appends, follower with known leader forwards, else waits
RECURSIVE QueueStep(_, _, _)
QueueStep(n, s, out) ==
  IF s.queue = <<>> \/ s.leader = Nil THEN [s |-> s, out |-> out]
  ELSE LET c == Head(s.queue)
           s1 == [s EXCEPT !.queue = Tail(@)]
       IN IF s.role = "L"
          THEN QueueStep(n, [s1 EXCEPT !.log = Append(@, Entry(LastIdx(s) + 1, s.term, c))], out)
          ELSE QueueStep(n, s1, Send(out, n, s.leader, [type |-> "cmd", cmd |-> c]))

Deliverable(out) == \A m \in Nodes : Len(out[m]) >= 0

Tick(n, el, hb) ==
  LET e  == ElectionStep(n, node[n], EmptyOut, el)
      c  == CommitStep(n, e.s)
      a  == ApplyStep(c)
      sd == IF a.s.role = "L" /\ hb THEN SendAEAll(n, a.s, e.out, Others(n)) ELSE [s |-> a.s, out |-> e.out]
      q  == QueueStep(n, sd.s, sd.out)
  IN /\ node' = [node EXCEPT ![n] = q.s]
     /\ chan' = [chan EXCEPT ![n] = [m \in Nodes |-> @[m] \o q.out[m]]]
     /\ applied' = [applied EXCEPT ![n] = @ \o a.done]
     /\ (el => node[n].term < MaxTerm /\ n \in Electors /\ node[n].role # "L")
     /\ (hb => node[n].role = "L")
     /\ UNCHANGED <<conn, unused, faults>>

-----------------------------------------------------------------------------
Reply(s, n, idx, reset, success) == [type |-> "nni", next |-> idx, reset |-> reset, success |-> success]

OnRequestVote(n, from, s0, m) ==
  LET s1 == IF m.term > s0.term
            THEN [s0 EXCEPT !.term = m.term, !.votedFor = Nil, !.role = "F", !.leader = Nil] ELSE s0
  IN IF /\ s1.role \in {"F", "C"}
        /\ m.term >= s1.term
        /\ ~(m.lastTerm < LastTerm(s1))
        /\ ~(m.lastTerm = LastTerm(s1) /\ m.lastIdx < LastIdx(s1))
        /\ s1.votedFor = Nil
     THEN [s |-> [s1 EXCEPT !.votedFor = from, !.elDue = FALSE],
           out |-> Send(EmptyOut, n, from, [type |-> "vote", term |-> m.term])]
     ELSE [s |-> s1, out |-> EmptyOut]

OnAppendEntries(n, from, s0, m) ==
  IF m.term < s0.term THEN [s |-> s0, out |-> EmptyOut]
  ELSE
    LET s1 == [s0 EXCEPT !.elDue = FALSE, !.leader = from,
                         !.term = m.term, !.votedFor = IF m.term > s0.term THEN Nil ELSE @,
                         !.role = "F"]
    IN IF ~HasIdx(s1, m.prevIdx)
       THEN [s |-> s1, out |-> Send(EmptyOut, n, from, Reply(s1, n, LastIdx(s1) + 1, TRUE, FALSE))]
       ELSE IF TermAt(s1, m.prevIdx) # m.prevTerm
       THEN [s |-> s1, out |-> Send(EmptyOut, n, from, Reply(s1, n, m.prevIdx, TRUE, FALSE))]
       ELSE LET kept == SubSeq(s1.log, 1, m.prevIdx - FirstIdx(s1) + 1)   \* delete everything after prevIdx
                s2 == [s1 EXCEPT !.log = kept \o m.entries]
                nxt == IF m.entries # <<>> THEN m.entries[Len(m.entries)].idx + 1 ELSE m.prevIdx + 1
                s3 == IF m.commit > s2.commit
                      THEN [s2 EXCEPT !.commit = IF m.commit < LastIdx(s2) THEN m.commit ELSE LastIdx(s2)]
                      ELSE s2
            IN [s |-> s3, out |-> Send(EmptyOut, n, from, Reply(s3, n, nxt, FALSE, TRUE))]

OnVote(n, from, s0, m) ==
  IF s0.role = "C" /\ m.term = s0.term
  THEN LET s1 == [s0 EXCEPT !.votes = @ + 1]
       IN IF Majority(s1.votes) THEN BecomeLeader(n, s1, EmptyOut) ELSE [s |-> s1, out |-> EmptyOut]
  ELSE [s |-> s0, out |-> EmptyOut]

OnNextNodeIdx(n, from, s0, m) ==
  IF s0.role # "L" THEN [s |-> s0, out |-> EmptyOut]
  ELSE LET s1 == IF m.reset THEN [s0 EXCEPT !.nextIdx[from] = m.next] ELSE s0
           s2 == IF m.success /\ s1.matchIdx[from] < m.next - 1
                 THEN [s1 EXCEPT !.matchIdx[from] = m.next - 1, !.nextIdx[from] = m.next] ELSE s1
       IN [s |-> s2, out |-> EmptyOut]

OnCmd(n, from, s0, m) == [s |-> [s0 EXCEPT !.queue = Append(@, m.cmd)], out |-> EmptyOut]

Receive(i, j) ==
  /\ chan[i][j] # <<>>
  /\ LET m == Head(chan[i][j])
         r == CASE m.type = "rv"   -> OnRequestVote(j, i, node[j], m)
                [] m.type = "ae"   -> OnAppendEntries(j, i, node[j], m)
                [] m.type = "vote" -> OnVote(j, i, node[j], m)
                [] m.type = "nni"  -> OnNextNodeIdx(j, i, node[j], m)
                [] m.type = "cmd"  -> OnCmd(j, i, node[j], m)
         ch1 == [chan EXCEPT ![i][j] = Tail(@)]
     IN /\ node' = [node EXCEPT ![j] = r.s]
        /\ chan' = [ch1 EXCEPT ![j] = [m2 \in Nodes |-> @[m2] \o r.out[m2]]]
        /\ UNCHANGED <<conn, applied, unused, faults>>

Submit(n, c) ==
  /\ c \in unused /\ n \in SubmitAt /\ node[n].role = "L"
  /\ unused' = unused \ {c}
  /\ node' = [node EXCEPT ![n].queue = Append(@, c)]
  /\ UNCHANGED <<chan, conn, applied, faults>>


Disconnect(i, j) == /\ i # j /\ j \in conn[i] /\ faults < MaxFaults /\ faults' = faults + 1
                    /\ conn' = [conn EXCEPT ![i] = @ \ {j}, ![j] = @ \ {i}]
                    /\ chan' = [chan EXCEPT ![i][j] = <<>>, ![j][i] = <<>>]
                    /\ UNCHANGED <<node, applied, unused>>
Connect(i, j)    == /\ i # j /\ j \notin conn[i] /\ i \notin Isolated /\ j \notin Isolated
                    /\ conn' = [conn EXCEPT ![i] = @ \cup {j}, ![j] = @ \cup {i}]
                    /\ UNCHANGED <<node, chan, applied, unused, faults>>

Next == \/ \E n \in Nodes, el, hb \in BOOLEAN : Tick(n, el, hb)
        \/ \E n \in Nodes, c \in Cmds : Submit(n, c)
        \/ \E i, j \in Nodes : Receive(i, j) \/ Disconnect(i, j) \/ Connect(i, j)

Spec == Init /\ [][Next]_vars

Sym == Permutations(Nodes)
Bound == /\ \A n \in Nodes : node[n].term <= MaxTerm /\ Len(node[n].log) <= MaxLog
         /\ \A i, j \in Nodes : Len(chan[i][j]) <= MaxChan

-----------------------------------------------------------------------------
IsPrefix(a, b) == Len(a) <= Len(b) /\ SubSeq(b, 1, Len(a)) = a
ApplyAgreement == \A a, b \in Nodes : IsPrefix(applied[a], applied[b]) \/ IsPrefix(applied[b], applied[a])
OneLeaderPerTerm == \A a, b \in Nodes : (node[a].role = "L" /\ node[b].role = "L" /\ node[a].term = node[b].term) => a = b
LogMatching == \A a, b \in Nodes : \A i \in 1..Len(node[a].log) :
                 (i <= Len(node[b].log) /\ node[a].log[i].term = node[b].log[i].term) =>
                    SubSeq(node[a].log, 1, i) = SubSeq(node[b].log, 1, i)
\* step-strong form of C04 for the replication-only scenario: whatever the leader counts as stored on m is stored on m
AckedStillStored == \A l \in Nodes : node[l].role = "L" =>
   \A m \in Others(l) : (node[m].term = node[l].term /\ node[l].matchIdx[m] > 0) =>
        \E k \in 1..Len(node[m].log) : node[m].log[k].idx = node[l].matchIdx[m]
=============================================================================

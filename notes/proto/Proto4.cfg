SPECIFICATION Spec
CONSTANTS
  Nodes = {a, b, c}
  Cmds = {c1, c2, c3, c4, c5}
  MaxTerm = 1
  MaxLog = 7
  MaxChan = 3
  BatchBytes = 50
  CmdBytes = 40
  MaxFaults = 0
  Electors = {a}
  Isolated = {c}
  SubmitAt = {a}
  Nil = Nil
CONSTRAINT Bound
INVARIANT AckedStillStored
CHECK_DEADLOCK FALSE

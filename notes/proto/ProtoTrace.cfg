SPECIFICATION TSpec
CONSTANTS
  Nodes = {"a", "b", "c"}
  Cmds = {"c1", "c2", "c3", "c4", "c5", "c6", "c7", "c8"}
  MaxTerm = 1000
  MaxLog = 1000
  MaxChan = 1000
  BatchBytes = 50
  CmdBytes = 40
  MaxFaults = 1000
  Electors = {"a", "b", "c"}
  Isolated = {}
  SubmitAt = {"a", "b", "c"}
  Nil = "Nil"
INVARIANT TraceInvs
INVARIANT AckedStillStored
POSTCONDITION Accepted
CHECK_DEADLOCK FALSE

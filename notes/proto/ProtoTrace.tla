---------------------------- MODULE ProtoTrace ----------------------------
(* FEASIBILITY PROTOTYPE: validate an implementation trace (JSON, one record per step with the   *)
(* action, its parameters and the full projected state) against Proto4.                         *)
EXTENDS Proto4, Json, IOUtils, TLCExt

ImplTrace == JsonDeserialize(IOEnv.TRACE_FILE)
VARIABLE l
tvars == <<vars, l>>

ToSet(sq) == {sq[k] : k \in 1..Len(sq)}
Bind(e) == /\ node' = e.node
           /\ chan' = e.chan
           /\ conn' = [i \in Nodes |-> ToSet(e.conn[i])]

TInit == Init /\ l = 1
TNext == /\ l <= Len(ImplTrace)
         /\ l' = l + 1
         /\ LET e == ImplTrace[l] IN
            /\ CASE e.name = "Tick"       -> Tick(e.ctx.n, e.ctx.el, e.ctx.hb)
                 [] e.name = "Receive"    -> Receive(e.ctx.i, e.ctx.j)
                 [] e.name = "Submit"     -> Submit(e.ctx.n, e.ctx.c)
                 [] e.name = "Disconnect" -> Disconnect(e.ctx.i, e.ctx.j)
                 [] e.name = "Connect"    -> Connect(e.ctx.i, e.ctx.j)
            /\ Bind(e)
TSpec == TInit /\ [][TNext]_tvars

Accepted == TLCGet("stats").diameter = Len(ImplTrace) + 1
\* the property formulas evaluated on every state the implementation went through
TraceInvs == ApplyAgreement /\ OneLeaderPerTerm /\ LogMatching
=============================================================================

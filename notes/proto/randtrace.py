"""FEASIBILITY PROTOTYPE: randomly scheduled run of real SyncObj objects -> JSON trace for ProtoTrace.tla"""
import sys, json, random
sys.argv_saved = sys.argv
from replay_cex import *
from replay_cex import _p
def run(seed, steps, out):
    rnd = random.Random(seed)
    ids = ['a', 'b', 'c']
    net = Net()
    for i in ids: net.conn[i] = set(x for x in ids if x != i)
    objs = {i: Obj(net, i, ids) for i in ids}
    for i in ids:
        for j in net.conn[i]: CUR[0] = i; net.tr[i]._onNodeConnected(Node(j))
    unused = ['c%d' % k for k in range(1, 9)]
    trace = []
    for step in range(steps):
        cands = []
        for n in ids:
            o = objs[n]
            if o._isLeader(): cands += [('Tick', {'n': n, 'el': False, 'hb': True})] * 3 + [('Tick', {'n': n, 'el': False, 'hb': False})]
            else: cands += [('Tick', {'n': n, 'el': False, 'hb': False})] * 2 + [('Tick', {'n': n, 'el': True, 'hb': False})] * (1 if rnd.random() < 0.15 else 0)
            if o._isLeader() and unused and rnd.random() < 0.3: cands.append(('Submit', {'n': n, 'c': unused[0]}))
        for (i, j), q in net.chan.items():
            if q: cands += [('Receive', {'i': i, 'j': j})] * 4
        for i in ids:
            for j in ids:
                if i < j and rnd.random() < 0.03:
                    cands.append(('Disconnect' if j in net.conn[i] else 'Connect', {'i': i, 'j': j}))
        nm, ctx = rnd.choice(cands)
        if nm == 'Tick':
            n = ctx['n']; CUR[0] = n
            if ctx['el']: CLOCK[n] += 5000.0
            elif ctx['hb']: CLOCK[n] += 0.15
            objs[n].doTick(0.0)
        elif nm == 'Receive':
            i, j = ctx['i'], ctx['j']; CUR[0] = j
            net.tr[j]._onMessageReceived(Node(i), _p.loads(net.chan[(i, j)].popleft()))
        elif nm == 'Submit':
            n = ctx['n']; CUR[0] = n; unused.pop(0)
            objs[n].add(pad_cmd(objs[n], ctx['c']))
        elif nm == 'Disconnect':
            i, j = ctx['i'], ctx['j']
            for x, y in ((i, j), (j, i)):
                net.conn[x].discard(y); net.chan[(x, y)].clear(); CUR[0] = x; net.tr[x]._onNodeDisconnected(Node(y))
        elif nm == 'Connect':
            i, j = ctx['i'], ctx['j']
            for x, y in ((i, j), (j, i)):
                net.conn[x].add(y); CUR[0] = x; net.tr[x]._onNodeConnected(Node(y))
        trace.append({'name': nm, 'ctx': ctx,
                      'node': {i: dict(project(objs[i], ids), elDue=(not objs[i]._isLeader()) and objs[i]._SyncObj__raftElectionDeadline < CLOCK[i], hbDue=False) for i in ids},
                      'chan': {i: {j: [msg_abs(m) for m in net.chan[(i, j)]] for j in ids} for i in ids},
                      'conn': {i: sorted(net.conn[i]) for i in ids}})
    json.dump(trace, open(out, 'w'))
    return objs
if __name__ == '__main__':
    import time
    t0 = time.time()
    objs = run(int(sys.argv[1]), int(sys.argv[2]), sys.argv[3])
    print('generated', sys.argv[2], 'steps in %.2fs' % (time.time() - t0), {i: (o._isLeader(), o.raftCurrentTerm, o.raftCommitIndex, len(o.seq)) for i, o in objs.items()})

"""FEASIBILITY PROTOTYPE: replay a TLC counterexample (JSON from -dumpTrace json) of Proto4.tla on real,
unmodified SyncObj objects and compare the projected state with the specification state after every step."""
import sys, json, collections, pickle as _p
sys.path.insert(0, '/repo')
import pysyncobj.syncobj as so
from pysyncobj import SyncObj, SyncObjConf, replicated
from pysyncobj.transport import Transport
from pysyncobj.node import Node

CLOCK = collections.defaultdict(lambda: 1000.0); CUR = [None]
so.monotonicTime = lambda: CLOCK[CUR[0]]
class R:
    def random(self): return 0.0
so.random = R()
CMD_BYTES, BATCH = 40, 50

class Net:
    def __init__(self): self.chan = collections.defaultdict(collections.deque); self.tr = {}; self.conn = collections.defaultdict(set)
class T(Transport):
    def __init__(self, net, me): Transport.__init__(self, None, None, None); self.net, self.me = net, me; net.tr[me] = self
    def send(self, node, msg):
        if node.id not in self.net.conn[self.me]: return False
        self.net.chan[(self.me, node.id)].append(_p.dumps(msg)); return True
class Obj(SyncObj):
    def __init__(self, net, me, ids):
        conf = SyncObjConf(autoTick=False, appendEntriesBatchSizeBytes=BATCH, raftMinTimeout=1000.0, raftMaxTimeout=1001.0,
                           leaderFallbackTimeout=10**9, connectionTimeout=10**4, logCompactionMinEntries=10**9, logCompactionMinTime=10**9)
        CUR[0] = me
        super().__init__(Node(me), [Node(o) for o in ids if o != me], conf, transport=T(net, me), nodeClass=Node)
        self.seq = []
    @replicated
    def add(self, v): self.seq.append(v[:2]); return len(self.seq)

def pad_cmd(obj, name):
    # choose the argument so that the pickled command has exactly CMD_BYTES bytes
    for n in range(0, 60):
        v = name + '-' * n
        raw = so._bchr(0) + so.pickle.dumps((obj._methodToID['add_v0'], (v,)))
        if len(raw) == CMD_BYTES: return v
    raise SystemExit('cannot pad')

def cmd_name(raw):
    if raw[:1] == so._bchr(1): return 'noop'
    c = so.pickle.loads(raw[1:]); return c[1][0][:2]

def project(o, ids):
    g = lambda a: getattr(o, '_SyncObj__' + a)
    role = {0: 'F', 1: 'C', 2: 'L'}[g('raftState')]
    nid = lambda x: 'Nil' if x is None else (x.id if isinstance(x, Node) else x)
    return {
        'role': role, 'term': g('raftCurrentTerm'), 'votedFor': nid(g('votedForNodeId')), 'votes': g('votesCount'),
        'leader': nid(g('raftLeader')), 'log': [{'idx': e[1], 'term': e[2], 'cmd': cmd_name(e[0])} for e in g('raftLog')[:]],
        'commit': g('raftCommitIndex'), 'applied': g('raftLastApplied'),
        'nextIdx': {i: g('raftNextIndex').get(Node(i), 0) for i in ids}, 'matchIdx': {i: g('raftMatchIndex').get(Node(i), 0) for i in ids},
        'queue': [cmd_name(c[0]) for c in list(g('commandsQueue')._FastQueue__queue)],
    }

def msg_abs(raw):
    m = _p.loads(raw); t = m['type']
    if t == 'request_vote': return {'type': 'rv', 'term': m['term'], 'lastIdx': m['last_log_index'], 'lastTerm': m['last_log_term']}
    if t == 'response_vote': return {'type': 'vote', 'term': m['term']}
    if t == 'append_entries': return {'type': 'ae', 'term': m['term'], 'commit': m['commit_index'], 'prevIdx': m['prevLogIdx'], 'prevTerm': m['prevLogTerm'],
                                      'entries': [{'idx': e[1], 'term': e[2], 'cmd': cmd_name(e[0])} for e in m['entries']]}
    if t == 'next_node_idx': return {'type': 'nni', 'next': m['next_node_idx'], 'reset': m['reset'], 'success': m['success']}
    if t == 'apply_command': return {'type': 'cmd', 'cmd': cmd_name(m['command'])}
    return m

def norm(x):
    if isinstance(x, dict): return {k: norm(v) for k, v in x.items() if k not in ('elDue', 'hbDue')}
    if isinstance(x, list): return [norm(v) for v in x]
    return x

def main(path):
    ce = json.load(open(path))['counterexample']
    states = [s[1] for s in ce['state']]
    actions = [a[1] for a in ce['action']]            # actions[k] leads from states[k] to states[k+1]
    ids = sorted(states[0]['node'])
    net = Net()
    for i in ids: net.conn[i] = set(states[0]['conn'][i])
    objs = {i: Obj(net, i, ids) for i in ids}
    for i in ids:
        for j in net.conn[i]: CUR[0] = i; net.tr[i]._onNodeConnected(Node(j))
    names = {}
    mism = 0
    for k, act in enumerate(actions):
        nm, ctx = act['name'], act['context']
        if nm == 'Tick':
            n = ctx['n']; CUR[0] = n
            if ctx['el']: CLOCK[n] += 5000.0
            elif ctx['hb']: CLOCK[n] += 0.15
            objs[n].doTick(0.0)
        elif nm == 'Receive':
            i, j = ctx['i'], ctx['j']; CUR[0] = j
            net.tr[j]._onMessageReceived(Node(i), _p.loads(net.chan[(i, j)].popleft()))
        elif nm == 'Submit':
            n, c = ctx['n'], ctx['c']; CUR[0] = n
            objs[n].add(pad_cmd(objs[n], c))
        else:
            raise SystemExit('unhandled ' + nm)
        exp = states[k + 1]
        got_nodes = {i: project(objs[i], ids) for i in ids}
        got_chan = {i: {j: [msg_abs(m) for m in net.chan[(i, j)]] for j in ids} for i in ids}
        e_nodes, e_chan = norm(exp['node']), norm(exp['chan'])
        ok = True
        for i in ids:
            for f in got_nodes[i]:
                if got_nodes[i][f] != e_nodes[i][f]:
                    ok = False; print('  step %d %s%s: node %s field %s: code=%s spec=%s' % (k + 1, nm, ctx, i, f, got_nodes[i][f], e_nodes[i][f]))
            for j in ids:
                if got_chan[i][j] != e_chan[i][j]:
                    ok = False; print('  step %d %s%s: chan %s->%s: code=%s spec=%s' % (k + 1, nm, ctx, i, j, got_chan[i][j], e_chan[i][j]))
        mism += (not ok)
        print('step %2d %-8s %-28s %s' % (k + 1, nm, json.dumps(ctx), 'state equal' if ok else 'MISMATCH'))
    print('steps', len(actions), 'mismatching steps', mism)
    l = [i for i in ids if objs[i]._isLeader()][0]
    for m in ids:
        if m != l:
            mi = objs[l]._SyncObj__raftMatchIndex.get(Node(m), 0)
            stored = [e[1] for e in objs[m]._SyncObj__raftLog[:]]
            print('REAL CODE: leader %s believes %s stores up to %d ; %s actually stores %s -> AckedStillStored %s' % (l, m, mi, m, stored, 'holds' if mi == 0 or mi in stored else 'VIOLATED'))
if __name__ == '__main__':
    main(sys.argv[1])

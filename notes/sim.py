import sys, collections, pickle as _p
sys.path.insert(0, '/repo')
import pysyncobj.syncobj as so
from pysyncobj import SyncObj, SyncObjConf, replicated, FAIL_REASON
from pysyncobj.transport import Transport
from pysyncobj.node import Node

class Clock:
    now = 1000.0
so.monotonicTime = lambda: Clock.now
class FakeRandom:
    v = 0.0
    def random(self): return FakeRandom.v
so.random = FakeRandom()

class Net:
    def __init__(self):
        self.chan = collections.defaultdict(collections.deque)
        self.tr = {}
        self.up = set()
    def connect(self, i, j):
        for a, b in ((i, j), (j, i)):
            if (a, b) not in self.up:
                self.up.add((a, b)); self.tr[a]._onNodeConnected(Node(b))
    def disconnect(self, i, j):
        for a, b in ((i, j), (j, i)):
            if (a, b) in self.up:
                self.up.discard((a, b)); self.chan[(a, b)].clear(); self.tr[a]._onNodeDisconnected(Node(b))
    def deliver(self, s, d, n=1):
        q = self.chan[(s, d)]
        k = 0
        while q and k < n:
            m = _p.loads(q.popleft()); k += 1
            self.tr[d]._onMessageReceived(Node(s), m)
        return k
    def deliver_all(self, rounds=50):
        for _ in range(rounds):
            n = 0
            for (s, d) in list(self.chan):
                n += self.deliver(s, d, 10**9)
            if not n: break
    def peek(self, s, d):
        return [_p.loads(m) for m in self.chan[(s, d)]]

class SimTransport(Transport):
    def __init__(self, net, me):
        Transport.__init__(self, None, None, None)
        self.net, self.me = net, me
        net.tr[me] = self
    def send(self, node, message):
        if (self.me, node.id) not in self.net.up: return False
        self.net.chan[(self.me, node.id)].append(_p.dumps(message))
        return True
    def addNode(self, node): pass
    def dropNode(self, node): pass

class Obj(SyncObj):
    def __init__(self, net, me, others, **kw):
        conf = SyncObjConf(autoTick=False, **kw)
        tr = SimTransport(net, me)
        super().__init__(Node(me), [Node(o) for o in others], conf, transport=tr, nodeClass=Node)
        self.applied = []
    @replicated
    def add(self, v):
        self.applied.append((self.raftLastApplied + 1, v if not isinstance(v, (bytes, str)) or len(v) < 20 else len(v)))
        return len(self.applied)
    @replicated
    def boom(self, v):
        raise ValueError('boom')
    def log(self):
        return [(e[1], e[2]) for e in self._SyncObj__raftLog[:]]

def mk(ids, **kw):
    net = Net()
    objs = {}
    for k, i in enumerate(ids):
        FakeRandom.v = k / float(len(ids))
        objs[i] = Obj(net, i, [j for j in ids if j != i], **kw)
    for i in ids:
        for j in ids:
            if i < j: net.connect(i, j)
    return net, objs

def elect(net, objs, who):
    # make `who` time out alone
    Clock.now += 0.0
    o = objs[who]
    o._SyncObj__raftElectionDeadline = Clock.now - 1
    o.doTick(0.0)
    net.deliver_all()
    for x in objs.values(): x.doTick(0.0)
    net.deliver_all()
    assert o._isLeader(), who

def show(objs):
    for i, o in objs.items():
        print(' ', i, 'L' if o._isLeader() else '-', 't', o.raftCurrentTerm, 'ci', o.raftCommitIndex, 'la', o.raftLastApplied, o.log(), o.applied)

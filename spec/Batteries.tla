----------------------------- MODULE Batteries -----------------------------
(***************************************************************************)
(* pysyncobj/batteries.py: the six replicated containers as sequential     *)
(* state machines over small domains (C15).  One operation = one action;   *)
(* its result (return value, or the documented exception) is part of the   *)
(* transition.  TLC enumerates the complete state graph; every transition  *)
(* is printed (JSON) and becomes one test of the real container            *)
(* (harness/engine_batteries.py), which is also compared with the Python   *)
(* builtin the battery mimics.                                             *)
(*                                                                         *)
(* Python conventions that matter: negative list indices, list.insert      *)
(* clamping, pop() defaulting to the last element, dict.pop returning the  *)
(* default for a missing key (documented deviation from dict), bounded     *)
(* queues refusing items when full, an unbounded queue never being full.   *)
(***************************************************************************)
EXTENDS Naturals, Integers, Sequences, FiniteSets, TLC, Json

CONSTANTS Vals, Keys, MaxLen, QMax,     \* element values, dict keys, list/queue length bound, queue maxsize (0 = unbounded)
          KindSet                        \* the containers explored by this configuration

VARIABLES kind, st
vars == <<kind, st>>

Kinds == KindSet
None == "None"
Err(e) == [err |-> e]
Ok(v) == [ok |-> v]

Init == /\ kind \in Kinds
        /\ st = CASE kind = "counter" -> 0
                  [] kind = "list" -> <<>>
                  [] kind = "dict" -> <<>>          \* function Keys -> Vals with finite domain
                  [] kind = "set" -> {}
                  [] kind = "queue" -> <<>>
                  [] kind = "pqueue" -> <<>>        \* kept sorted: a heap's pop order

(* ---- python list index helpers (0-based, negative from the end) ---- *)
ValidIdx(l, i) == -Len(l) <= i /\ i < Len(l)
Pos(l, i) == IF i >= 0 THEN i + 1 ELSE Len(l) + i + 1          \* 1-based position
SetAt(l, p, v) == [l EXCEPT ![p] = v]
RemoveAt(l, p) == SubSeq(l, 1, p - 1) \o SubSeq(l, p + 1, Len(l))
InsertBefore(l, p, v) == SubSeq(l, 1, p - 1) \o <<v>> \o SubSeq(l, p, Len(l))     \* p in 1..Len+1
InsertPos(l, i) == IF i < 0 THEN (IF Len(l) + i < 0 THEN 1 ELSE Len(l) + i + 1)
                   ELSE (IF i > Len(l) THEN Len(l) + 1 ELSE i + 1)
FirstPos(l, v) == CHOOSE p \in 1..Len(l) : l[p] = v /\ \A q \in 1..(p - 1) : l[q] # v
Has(l, v) == \E p \in 1..Len(l) : l[p] = v
RECURSIVE SortedOf(_)
SortedOf(l) == IF l = <<>> THEN <<>>
              ELSE LET m == CHOOSE p \in 1..Len(l) : \A q \in 1..Len(l) : l[p] <= l[q] /\ (l[q] = l[p] => p <= q)
                   IN <<l[m]>> \o SortedOf(RemoveAt(l, m))
Reverse(l) == [p \in 1..Len(l) |-> l[Len(l) + 1 - p]]
RECURSIVE InsertSorted(_, _)
InsertSorted(l, v) == IF l = <<>> THEN <<v>> ELSE IF v < Head(l) THEN <<v>> \o l ELSE <<Head(l)>> \o InsertSorted(Tail(l), v)

Idx == (0 - MaxLen - 1)..(MaxLen + 1)

(* Step(op, args, res, new): the transition relation, also printed for the conformance harness *)
Emit(op, args, res, new) ==
  /\ st' = new /\ kind' = kind
  /\ PrintT(ToJson([t |-> "T", kind |-> kind, pre |-> st, op |-> op, args |-> args, res |-> res, post |-> new]))

CounterNext ==
  \/ \E v \in -1..2 : Emit("set", <<v>>, Ok(v), v)
  \/ \E v \in -1..2 : (st + v \in -3..3) /\ Emit("add", <<v>>, Ok(st + v), st + v)
  \/ \E v \in -1..2 : (st - v \in -3..3) /\ Emit("sub", <<v>>, Ok(st - v), st - v)
  \/ (st + 1 <= 3) /\ Emit("inc", <<>>, Ok(st + 1), st + 1)
  \/ Emit("get", <<>>, Ok(st), st)

ListNext ==
  \/ \E v \in Vals : Len(st) < MaxLen /\ Emit("append", <<v>>, Ok(None), Append(st, v))
  \/ \E i \in Idx, v \in Vals :
        Emit("set", <<i, v>>, IF ValidIdx(st, i) THEN Ok(None) ELSE Err("IndexError"),
             IF ValidIdx(st, i) THEN SetAt(st, Pos(st, i), v) ELSE st)
  \/ \E i \in Idx, v \in Vals : Len(st) < MaxLen /\ Emit("insert", <<i, v>>, Ok(None), InsertBefore(st, InsertPos(st, i), v))
  \/ \E v \in Vals :
        Emit("remove", <<v>>, IF Has(st, v) THEN Ok(None) ELSE Err("ValueError"),
             IF Has(st, v) THEN RemoveAt(st, FirstPos(st, v)) ELSE st)
  \/ Emit("pop", <<>>, IF st = <<>> THEN Err("IndexError") ELSE Ok(st[Len(st)]),
          IF st = <<>> THEN st ELSE SubSeq(st, 1, Len(st) - 1))
  \/ \E i \in Idx :
        Emit("pop", <<i>>, IF ValidIdx(st, i) THEN Ok(st[Pos(st, i)]) ELSE Err("IndexError"),
             IF ValidIdx(st, i) THEN RemoveAt(st, Pos(st, i)) ELSE st)
  \/ \E r \in BOOLEAN : Emit("sort", <<r>>, Ok(None), IF r THEN Reverse(SortedOf(st)) ELSE SortedOf(st))
  \/ \E v \in Vals : Emit("index", <<v>>, IF Has(st, v) THEN Ok(FirstPos(st, v) - 1) ELSE Err("ValueError"), st)
  \/ \E v \in Vals : Emit("count", <<v>>, Ok(Cardinality({p \in 1..Len(st) : st[p] = v})), st)
  \/ \E i \in Idx : Emit("get", <<i>>, IF ValidIdx(st, i) THEN Ok(st[Pos(st, i)]) ELSE Err("IndexError"), st)
  \/ Emit("len", <<>>, Ok(Len(st)), st)

DSet(d, k, v) == [q \in DOMAIN d \cup {k} |-> IF q = k THEN v ELSE d[q]]
DDel(d, k) == [q \in DOMAIN d \ {k} |-> d[q]]
DictNext ==
  \/ \E k \in Keys, v \in Vals : Emit("set", <<k, v>>, Ok(None), DSet(st, k, v))
  \/ \E k \in Keys, v \in Vals : Emit("setitem", <<k, v>>, Ok(None), DSet(st, k, v))
  \/ \E k \in Keys, v \in Vals :
        Emit("setdefault", <<k, v>>, Ok(IF k \in DOMAIN st THEN st[k] ELSE v), IF k \in DOMAIN st THEN st ELSE DSet(st, k, v))
  \/ \E k \in Keys : Emit("pop", <<k>>, Ok(IF k \in DOMAIN st THEN st[k] ELSE None), DDel(st, k))
  \/ \E k \in Keys, v \in Vals : Emit("pop", <<k, v>>, Ok(IF k \in DOMAIN st THEN st[k] ELSE v), DDel(st, k))
  \/ Emit("clear", <<>>, Ok(None), <<>>)
  \/ \E k \in Keys : Emit("get", <<k>>, Ok(IF k \in DOMAIN st THEN st[k] ELSE None), st)
  \/ \E k \in Keys : Emit("getitem", <<k>>, IF k \in DOMAIN st THEN Ok(st[k]) ELSE Err("KeyError"), st)
  \/ \E k \in Keys : Emit("contains", <<k>>, Ok(k \in DOMAIN st), st)
  \/ Emit("len", <<>>, Ok(Cardinality(DOMAIN st)), st)

SetNext ==
  \/ \E v \in Vals : Emit("add", <<v>>, Ok(None), st \cup {v})
  \/ \E v \in Vals : Emit("remove", <<v>>, IF v \in st THEN Ok(None) ELSE Err("KeyError"), st \ {v})
  \/ \E v \in Vals : Emit("discard", <<v>>, Ok(None), st \ {v})
  \/ (st = {}) /\ Emit("pop", <<>>, Err("KeyError"), st)
  \/ \E v \in st : Emit("pop", <<>>, Ok(v), st \ {v})           \* an arbitrary element
  \/ Emit("clear", <<>>, Ok(None), {})
  \/ \E v \in Vals : Emit("contains", <<v>>, Ok(v \in st), st)
  \/ Emit("len", <<>>, Ok(Cardinality(st)), st)

IsFull(q) == QMax > 0 /\ Len(q) >= QMax
QueueNext ==
  \/ \E v \in Vals : (Len(st) < MaxLen) /\ Emit("put", <<v>>, Ok(~IsFull(st)), IF IsFull(st) THEN st ELSE Append(st, v))
  \/ Emit("get", <<>>, Ok(IF st = <<>> THEN None ELSE Head(st)), IF st = <<>> THEN st ELSE Tail(st))
  \/ \E v \in Vals : Emit("get", <<v>>, Ok(IF st = <<>> THEN v ELSE Head(st)), IF st = <<>> THEN st ELSE Tail(st))
  \/ Emit("qsize", <<>>, Ok(Len(st)), st)
  \/ Emit("empty", <<>>, Ok(st = <<>>), st)
  \/ Emit("full", <<>>, Ok(IsFull(st)), st)

PQueueNext ==
  \/ \E v \in Vals : (Len(st) < MaxLen) /\ Emit("put", <<v>>, Ok(~IsFull(st)), IF IsFull(st) THEN st ELSE InsertSorted(st, v))
  \/ Emit("get", <<>>, Ok(IF st = <<>> THEN None ELSE Head(st)), IF st = <<>> THEN st ELSE Tail(st))
  \/ \E v \in Vals : Emit("get", <<v>>, Ok(IF st = <<>> THEN v ELSE Head(st)), IF st = <<>> THEN st ELSE Tail(st))
  \/ Emit("qsize", <<>>, Ok(Len(st)), st)
  \/ Emit("empty", <<>>, Ok(st = <<>>), st)
  \/ Emit("full", <<>>, Ok(IsFull(st)), st)

Next == CASE kind = "counter" -> CounterNext
          [] kind = "list" -> ListNext
          [] kind = "dict" -> DictNext
          [] kind = "set" -> SetNext
          [] kind = "queue" -> QueueNext
          [] kind = "pqueue" -> PQueueNext
Spec == Init /\ [][Next]_vars

(* sanity of the model itself *)
TypeOK ==
  CASE kind = "counter" -> st \in -3..3
    [] kind \in {"list", "queue", "pqueue"} -> Len(st) <= MaxLen
    [] kind = "set" -> st \subseteq Vals
    [] kind = "dict" -> DOMAIN st \subseteq Keys
SortedPQ == kind = "pqueue" => \A p \in 1..(Len(st) - 1) : st[p] <= st[p + 1]
Bounded == (kind \in {"queue", "pqueue"} /\ QMax > 0) => Len(st) <= QMax
=============================================================================

----------------------------- MODULE ChunkTrace -----------------------------
(* Observations of the real send loop / receiver for one big entry each: (command length, pickled length, batch    *)
(* size, labels and sizes of the pieces put on the wire, what the receiver made of them) against Chunking.        *)
EXTENDS Chunking, Json, IOUtils, TLCExt
Batch == JsonDeserialize(IOEnv.TRACE_FILE)
Cases == Batch.cases
VARIABLE tid
TInit == tid \in 1..Len(Cases) /\ c = Cases[tid].c /\ o = Cases[tid].p - Cases[tid].c /\ b = Cases[tid].b /\ sizes = <<>>
TNext == UNCHANGED <<c, o, b, sizes, tid>>
TSpec == TInit /\ [][TNext]_<<c, o, b, sizes, tid>>
Verdict ==
  LET e == Cases[tid]
      exp == IF Chunked(e.c, e.b) THEN Chunks(e.p, e.b) ELSE <<>>
      d == (IF [k \in 1..Len(exp) |-> exp[k].label] # e.labels THEN {"labels"} ELSE {})
           \cup (IF [k \in 1..Len(exp) |-> exp[k].len] # e.lens THEN {"lens"} ELSE {})
      bad == (IF e.nexc # 0 THEN {"C11.NoEscape"} ELSE {})
             \cup (IF ~e.delivered THEN {"C11.ArrivesIntact"} ELSE {})
             \cup (IF ~e.once THEN {"C11.ExactlyOnceEqualArgs"} ELSE {})
             \cup (IF Chunked(e.c, e.b) /\ ~LabelsOK(e.p, e.b) THEN {"C11.LabelsOK"} ELSE {})
             \cup (IF e.labels # <<>> /\ (\E k \in 1..Len(e.labels) : (e.labels[k] = "finish") # (k = Len(e.labels))) THEN {"C11.OneFinishLast"} ELSE {})
  IN /\ (d # {}) => PrintT(<<"DRIFT", tid, 1, <<"chunks">>, d>>)
     /\ (bad # {}) => PrintT(<<"VIOL", tid, 1, <<"chunks">>, bad>>)
     /\ PrintT(<<"DONE", tid, 0, 0>>)
=============================================================================

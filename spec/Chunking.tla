------------------------------ MODULE Chunking ------------------------------
(***************************************************************************)
(* How a log entry that does not fit into one append_entries message       *)
(* travels (C11): SyncObj.__sendAppendEntries cuts the PICKLED entry       *)
(* (P bytes = command length C + pickle overhead) into pieces of B bytes   *)
(* (appendEntriesBatchSizeBytes) labelled start / process / finish, the    *)
(* receiver (__onMessageReceived) concatenates them and unpickles on       *)
(* finish.  Also the batch rule of __getEntries (entries are added until   *)
(* the running size reaches the budget, inclusive).                        *)
(***************************************************************************)
EXTENDS Naturals, Integers, Sequences, FiniteSets, TLC

CONSTANTS MaxC, MaxO, MaxB      \* bounds for exhaustive exploration: command length, overhead, batch size

(* the labels the sender attaches: position pos = 0, B, 2B, ... < P *)
Label(pos, P, B) == IF pos = 0 THEN "start" ELSE IF pos + B >= P THEN "finish" ELSE "process"
NChunks(P, B) == (P + B - 1) \div B
Chunks(P, B) == [k \in 1..NChunks(P, B) |->
                   [label |-> Label((k - 1) * B, P, B), from |-> (k - 1) * B,
                    len |-> IF k * B <= P THEN B ELSE P - (k - 1) * B]]
Chunked(C, B) == C >= B          \* a single entry at least as large as the budget is sent in pieces

(* the receiver automaton: buf = number of bytes assembled, or -1 after garbage; returns the outcome *)
RECURSIVE Receive(_, _, _, _)
Receive(chs, k, buf, P) ==
  IF k > Len(chs) THEN [done |-> FALSE, ok |-> FALSE, buf |-> buf]
  ELSE LET c == chs[k] IN
       IF c.label = "start" THEN Receive(chs, k + 1, c.len, P)
       ELSE IF c.label = "process" THEN Receive(chs, k + 1, buf + c.len, P)
       ELSE \* finish: unpickle what has been assembled
            [done |-> TRUE, ok |-> (buf + c.len = P), buf |-> 0, at |-> k]

(* C11 for one entry: exactly one finish and it is the last piece, the first is start, the pieces cover the     *)
(* pickled entry exactly once, the receiver assembles exactly the bytes sent                                   *)
LabelsOK(P, B) ==
  LET chs == Chunks(P, B) IN
  /\ NChunks(P, B) >= 2 => chs[1].label = "start"
  /\ \A k \in 1..Len(chs) : (chs[k].label = "finish") <=> (k = Len(chs) /\ k > 1)
  /\ \A k \in 1..Len(chs) : chs[k].from = (k - 1) * B /\ chs[k].len > 0
  /\ LET r == Receive(chs, 1, 0, P) IN (Len(chs) >= 2) => (r.done /\ r.ok /\ r.at = Len(chs))

AllOK == \A C \in 1..MaxC, O \in 1..MaxO, B \in 1..MaxB : Chunked(C, B) => LabelsOK(C + O, B)

(* __getEntries(from, None, B): the batch is the shortest prefix whose total size reaches B (inclusive), or all *)
RECURSIVE Take(_, _, _, _)
Take(sizes, k, total, B) ==
  IF k > Len(sizes) THEN Len(sizes)
  ELSE IF total + sizes[k] >= B THEN k ELSE Take(sizes, k + 1, total + sizes[k], B)
(* repeated batching partitions the suffix in order: every entry is sent exactly once per pass *)
RECURSIVE Batches(_, _)
Batches(sizes, B) == IF sizes = <<>> THEN <<>>
                     ELSE LET n == Take(sizes, 1, 0, B) IN <<n>> \o Batches(SubSeq(sizes, n + 1, Len(sizes)), B)
RECURSIVE SumSeq(_)
SumSeq(q) == IF q = <<>> THEN 0 ELSE Head(q) + SumSeq(Tail(q))
BatchCovers(sizes, B) == LET b == Batches(sizes, B) IN SumSeq(b) = Len(sizes) /\ \A k \in 1..Len(b) : b[k] >= 1

(* exhaustive exploration: one initial state per (command length, overhead, batch size) and per size sequence *)
VARIABLES c, o, b, sizes
Init == c \in 1..MaxC /\ o \in 1..MaxO /\ b \in 1..MaxB /\ sizes \in UNION {[1..n -> 1..4] : n \in 0..3}
Next == UNCHANGED <<c, o, b, sizes>>
Spec == Init /\ [][Next]_<<c, o, b, sizes>>
Inv == (Chunked(c, b) => LabelsOK(c + o, b)) /\ BatchCovers(sizes, b)
=============================================================================

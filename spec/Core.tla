-------------------------------- MODULE Core --------------------------------
(***************************************************************************)
(* PySyncObj cluster at the implementation's grain of atomicity.           *)
(*                                                                         *)
(* One action per real entry point of one real node:                       *)
(*   Tick(n, adv)   = SyncObj._onTick on node n after its clock advanced   *)
(*                    by the scale adv (z: nothing, h: > appendEntries-    *)
(*                    Period, m: > leaderFallbackTimeout, j: > raftMax-    *)
(*                    Timeout)                                             *)
(*   Deliver(i, j)  = SyncObj.__onMessageReceived at j for the head of the *)
(*                    FIFO channel i -> j (or the transport-level hello    *)
(*                    that binds a new incoming connection)                *)
(*   Submit(n, c)   = a replicated call on node n (enqueue only)           *)
(*   Break / Notice / Connect = connection faults as the transport sees    *)
(*                    them (both ends notice independently)                *)
(*   Compact(n)     = forceLogCompaction()                                 *)
(* Each action is the sequential composition of the same sub-steps, in the *)
(* same order, as the code (syncobj.py); the model describes what the code *)
(* does, including behaviour believed wrong.  All steps are functions      *)
(* from a node record to a step context [s, out, ev] (new node record,     *)
(* messages sent in order, callbacks fired in order), so that trace        *)
(* validation can compare the computed successor with the projected state  *)
(* of the real objects field by field (CoreTrace.tla).                     *)
(***************************************************************************)
EXTENDS Naturals, Integers, Sequences, FiniteSets, TLC

CONSTANTS
  Nodes,          \* all simulator node ids
  Voters0,        \* initial voting members
  Nil,
  BatchBytes,     \* appendEntriesBatchSizeBytes
  UseBatch,       \* appendEntriesUseBatch
  WaitLeader,     \* commandsWaitLeader
  QueueSize,      \* commandsQueueSize
  Observers,      \* read-only nodes (started without an own address)
  Membership,     \* dynamicMembershipChange
  CompactMin,     \* logCompactionMinEntries
  SnapChunk,      \* logCompactionBatchSize (bytes per snapshot chunk)
  Journal,        \* nodes keep a file journal (and can be crashed / restarted)
  DumpFile,       \* nodes keep their snapshot in a dump file (else in memory)
  Fork,           \* the dump file is written by a forked child process (useFork) while the node goes on
  UserSer,        \* the dump is written / read through user-supplied serializer functions (the library's own state is not in it)
  QuietCids,      \* ids of commands submitted during a quiet period (C05: they must succeed)
  VersionedCids,  \* ids of calls to a method that exists in several code versions
  Raisers,        \* ids of regular commands whose replicated method raises when executed (on every replica)
  SpecialCids,    \* callback ids of submissions that are not regular commands (membership, version)
  Conform,        \* trace validation compares every step with this specification (FALSE: formulas only)
  InitConnected,  \* start from a fully connected mesh (saves depth in exhaustive runs)
  Isolated0       \* ... except these nodes, which start connected to nobody

VARIABLES
  node,           \* node[n] : record, see InitNode
  chan,           \* chan[i][j] : FIFO of messages in flight on the connection i -> j
  alive,          \* set of {i,j}: the physical connection exists
  up,             \* set of <<i,j>>: endpoint i has j registered as connected (send returns True)
  cbs,            \* command id -> sequence of <<result, error>> : callbacks fired so far
  nexc,           \* number of exceptions that escaped an entry point
  snaps           \* snapshot id -> content [size, last, prev, hist, cluster, ver] of every snapshot ever serialized

vars == <<node, chan, alive, up, cbs, nexc, snaps>>

-----------------------------------------------------------------------------
(* FAIL_REASON *)
SUCCESS == 0  QUEUE_FULL == 1  MISSING_LEADER == 2  DISCARDED == 3
NOT_LEADER == 4  LEADER_CHANGED == 5  REQUEST_DENIED == 6

NoopCmd == "noop"
Entry(i, t, c, z) == [idx |-> i, term |-> t, cmd |-> c, sz |-> z]

Max(a, b) == IF a > b THEN a ELSE b
Min(a, b) == IF a < b THEN a ELSE b
Last(q) == q[Len(q)]
SeqToSet(q) == {q[k] : k \in 1..Len(q)}
RemoveKey(f, k) == [q \in DOMAIN f \ {k} |-> f[q]]
SetKey(f, k, v) == [q \in DOMAIN f \cup {k} |-> IF q = k THEN v ELSE f[q]]

LastIdx(s)  == Last(s.log).idx
LastTerm(s) == Last(s.log).term
FirstIdx(s) == s.log[1].idx
(* __getEntries(fromIDx, count): positional slice relative to the first entry's index *)
EntriesFrom(s, i) == IF i < FirstIdx(s) THEN <<>>
                     ELSE SubSeq(s.log, i - FirstIdx(s) + 1, Len(s.log))
EntriesFromN(s, i, cnt) == IF i < FirstIdx(s) THEN <<>>
                           ELSE SubSeq(s.log, i - FirstIdx(s) + 1, Min(Len(s.log), i - FirstIdx(s) + cnt))

DeleteTo(s, toIdx) == IF toIdx - FirstIdx(s) < 0 THEN s.log ELSE SubSeq(s.log, toIdx - FirstIdx(s) + 1, Len(s.log))

(* strict majority of the voters this node knows: count > (len(others)+1)/2 *)
IsMajority(s, cnt) == 2 * cnt > Cardinality(s.others) + 1

InitNode(n) ==
  [alive |-> TRUE, role |-> "F", term |-> 0, votedFor |-> Nil, votes |-> 0, leader |-> Nil,
   log |-> <<Entry(1, 0, NoopCmd, 1)>>, commit |-> 1, applied |-> 1, lci |-> -1,
   nextIdx |-> <<>>, matchIdx |-> <<>>, fresh |-> {},
   others |-> Voters0 \ {n}, ro |-> {},
   conn |-> IF InitConnected /\ n \in Voters0 \ Isolated0 THEN Voters0 \ (Isolated0 \cup {n}) ELSE {},
   elDue |-> FALSE, hbDue |-> FALSE,
   queue |-> <<>>, wc |-> <<>>, wr |-> <<>>, rcnt |-> 0,
   noopIdx |-> -1, chgIdx |-> -1, hist |-> <<>>, ver |-> 0, ready |-> FALSE,
   force |-> FALSE, lse |-> -1, needLoad |-> TRUE, serPid |-> 0, serId |-> 0,
   snap |-> "none", trans |-> <<>>, incoming |-> [has |-> FALSE],
   rocnt |-> 0, roid |-> <<>>, metaCommit |-> 1,
   names |-> 0, codeVer |-> 2,
   child |-> [st |-> "none"]]     \* the forked dump writer as the operating system sees it: none / run / ok / fail    \* code versions (C17): version the method-name table was built for / highest version of the node's code

Init ==
  /\ node = [n \in Nodes |-> IF n \in Voters0 \cup Observers THEN InitNode(n) ELSE [alive |-> FALSE, gen |-> 0]]
  /\ chan = [i \in Nodes |-> [j \in Nodes |-> <<>>]]
  /\ alive = IF InitConnected THEN {{i, j} : i, j \in Voters0 \ Isolated0} \ {{i} : i \in Voters0} ELSE {}
  /\ up = IF InitConnected THEN {<<i, j>> \in (Voters0 \ Isolated0) \X (Voters0 \ Isolated0) : i # j} ELSE {}
  /\ cbs = <<>>
  /\ nexc = 0
  /\ snaps = <<>>

-----------------------------------------------------------------------------
(* Step contexts.  x.s node record; x.out sequence of [to, msg]; x.ev sequence of fired        *)
(* callbacks [cid, res, err]; x.exc TRUE when an exception escaped (rest of the entry point    *)
(* is skipped).                                                                                *)
(* x.cut: iterations of the append_entries send loop after which its time budget is used up; x.left: what is  *)
(* left of it in the current invocation; x.cutHit: the budget was used up (time has passed); x.news: snapshots *)
(* serialized in this step.                                                                                   *)
DefaultCut == 8
Ctx(s) == [s |-> s, out |-> <<>>, ev |-> <<>>, exc |-> FALSE, cut |-> DefaultCut, left |-> DefaultCut,
           cutHit |-> FALSE, news |-> <<>>, ord |-> <<>>, dropped |-> {}]
WithS(x, s) == [x EXCEPT !.s = s]

(* transport.send(node, msg): appended only if this side has the peer registered *)
(* x.dropped: peers whose connection this node closed earlier in the same step (transport.dropNode) *)
Snd(x, n, to, msg) == IF <<n, to>> \in up /\ to \notin x.dropped
                      THEN [x EXCEPT !.out = Append(@, [to |-> to, msg |-> msg])] ELSE x

Fire(x, cb, res, err) ==
  IF cb.k = "cb" THEN [x EXCEPT !.ev = Append(@, [cid |-> cb.cid, res |-> res, err |-> err])] ELSE x

RECURSIVE SndAll(_, _, _, _)
SndAll(x, n, dests, msg) ==
  IF dests = {} THEN x
  ELSE LET m == CHOOSE d \in dests : TRUE IN SndAll(Snd(x, n, m, msg), n, dests \ {m}, msg)

(* __onLeaderChanged: every callback waiting for a forward reply gets LEADER_CHANGED, in id order *)
RECURSIVE FireAllWr(_, _)
FireAllWr(x, k) ==
  IF k > Len(x.s.wr) THEN WithS(x, [x.s EXCEPT !.wr = <<>>])
  ELSE FireAllWr(Fire(x, x.s.wr[k].cb, -1, LEADER_CHANGED), k + 1)
OnLeaderChanged(x) == FireAllWr(x, 1)

-----------------------------------------------------------------------------
(* dynamic membership: commands "add:<node>" / "rem:<node>" *)
AddCmd(v) == "add:" \o v
RemCmd(v) == "rem:" \o v
MembReq(c) ==
  IF \E v \in Nodes : c = AddCmd(v) THEN [k |-> "add", v |-> CHOOSE v \in Nodes : c = AddCmd(v)]
  ELSE IF \E v \in Nodes : c = RemCmd(v) THEN [k |-> "rem", v |-> CHOOSE v \in Nodes : c = RemCmd(v)]
  ELSE [k |-> "none"]
IsMemb(c) == MembReq(c).k # "none"

(* __doChangeCluster(request, reverse): [x, ok] *)
DoChange(x, n, req, reverse) ==
  LET s == x.s
      adding == (req.k = "add") # reverse
      v == req.v
  IN IF adding
     THEN IF v = n \/ v \in s.others THEN [x |-> x, ok |-> FALSE]
          ELSE [x |-> WithS(x, [s EXCEPT !.others = @ \cup {v},
                                         !.nextIdx = SetKey(@, v, LastIdx(s) + 1),
                                         !.matchIdx = SetKey(@, v, 0),
                                         !.fresh = IF s.role = "L" THEN @ \cup {v} ELSE @]),
                ok |-> TRUE]
     ELSE IF v = n \/ v \notin s.others THEN [x |-> x, ok |-> FALSE]
          ELSE [x |-> [WithS(x, [s EXCEPT !.others = @ \ {v},
                                          !.nextIdx = IF v \in DOMAIN @ THEN RemoveKey(@, v) ELSE @,
                                          !.matchIdx = IF v \in DOMAIN @ THEN RemoveKey(@, v) ELSE @])
                       EXCEPT !.dropped = @ \cup {v}],      \* transport.dropNode closes the connection
                ok |-> TRUE]

(* apply / roll back the membership entries of a sequence of log entries *)
RECURSIVE ChangeAll(_, _, _, _)
ChangeAll(x, n, es, reverse) ==
  IF es = <<>> THEN x
  ELSE LET e == IF reverse THEN Last(es) ELSE Head(es)
           rest == IF reverse THEN SubSeq(es, 1, Len(es) - 1) ELSE Tail(es)
           x1 == IF IsMemb(e.cmd) THEN DoChange(x, n, MembReq(e.cmd), reverse).x ELSE x
       IN ChangeAll(x1, n, rest, reverse)

(* __updateClusterConfiguration(newNodes) when a snapshot is loaded *)
UpdateCluster(x, n, new) ==
  LET s == x.s
      rem == s.others \ new
      add == new \ s.others
      nx1 == [k \in DOMAIN s.nextIdx \ rem |-> s.nextIdx[k]]
      mx1 == [k \in DOMAIN s.matchIdx \ rem |-> s.matchIdx[k]]
      s1 == [s EXCEPT !.others = new,
                      !.nextIdx = [k \in DOMAIN nx1 \cup add |-> IF k \in add THEN LastIdx(s) + 1 ELSE nx1[k]],
                      !.matchIdx = [k \in DOMAIN mx1 \cup add |-> IF k \in add THEN 0 ELSE mx1[k]]]
  IN [WithS(x, s1) EXCEPT !.dropped = @ \cup rem]

-----------------------------------------------------------------------------
(* __sendAppendEntries *)

(* __getEntries(from, None, maxSizeBytes): entries until the running size reaches the budget (inclusive) *)
RECURSIVE TakeBatch(_, _, _)
TakeBatch(es, k, total) ==
  IF k > Len(es) THEN Len(es)
  ELSE IF total + es[k].sz >= BatchBytes THEN k ELSE TakeBatch(es, k + 1, total + es[k].sz)

AEMsg(s, ents, pi, pt) ==
  [t |-> "ae", term |-> s.term, commit |-> s.commit, prevIdx |-> pi, prevTerm |-> pt, entries |-> ents]

(* Serializer.getTransmissionData(m): None while a serialization is pending or without a snapshot; otherwise  *)
(* the next chunk (SnapChunk bytes) of the snapshot held, the empty chunk after the last byte closing the     *)
(* transfer.                                                                                                  *)
HasSnap(s) == s.snap \notin {"none", "garbage"}

(* the while-loop for one follower m *)
RECURSIVE AELoop(_, _, _, _, _, _)
AELoop(x, n, m, next, single, serial) ==
  LET s == x.s IN
  IF ~(next <= LastIdx(s) \/ single \/ serial) THEN x
  ELSE
   LET body ==
    IF next > FirstIdx(s)
    THEN LET prevOk == next - 1 <= LastIdx(s)
             pi == IF prevOk THEN next - 1 ELSE -1
             pt == IF prevOk THEN s.log[next - 1 - FirstIdx(s) + 1].term ELSE -1
             all == IF next <= LastIdx(s) THEN EntriesFrom(s, next) ELSE <<>>
             ents == IF all = <<>> THEN <<>> ELSE SubSeq(all, 1, TakeBatch(all, 1, 0))
             nn == IF ents # <<>> THEN Last(ents).idx + 1 ELSE next
             s1 == IF ents # <<>> THEN [s EXCEPT !.nextIdx[m] = nn] ELSE s
         IN [x |-> Snd(WithS(x, s1), n, m, AEMsg(s1, ents, pi, pt)), next |-> nn, serial |-> FALSE]
    ELSE \* the follower needs entries that were compacted away: snapshot chunks
         IF s.serPid # 0 \/ ~HasSnap(s)
         THEN [x |-> Snd(x, n, m, [t |-> "aes", term |-> s.term, commit |-> s.commit, has |-> FALSE]),
               next |-> next, serial |-> FALSE]
         ELSE LET off == IF m \in DOMAIN s.trans THEN s.trans[m] ELSE 0
                  size == snaps[s.snap].size
                  len == Min(SnapChunk, size - off)
                  isLast == len = 0
                  s1 == [s EXCEPT !.trans = IF isLast THEN RemoveKey(@, m) ELSE SetKey(@, m, off + len)]
                  s2 == IF isLast THEN [s1 EXCEPT !.nextIdx[m] = s.log[2].idx + 1] ELSE s1
                  msg == [t |-> "aes", term |-> s.term, commit |-> s.commit, has |-> TRUE,
                          first |-> off = 0, last |-> isLast, len |-> len, sid |-> s.snap, off |-> off]
              IN [x |-> Snd(WithS(x, s2), n, m, msg), next |-> s2.nextIdx[m], serial |-> ~isLast]
       x1 == [body.x EXCEPT !.left = @ - 1]
   IN IF x1.left <= 0 THEN [x1 EXCEPT !.cutHit = TRUE]          \* delta > appendEntriesPeriod: break
      ELSE AELoop(x1, n, m, body.next, FALSE, body.serial)

(* the for-loop over the set of peers: its iteration order is the hash order of a Python set, an input      *)
(* (x.ord lists peers in the order the loop reaches them; peers not listed follow in any order)              *)
RECURSIVE SendAE(_, _, _, _)
SendAE(x, n, todo, ord) ==
  IF todo = {} THEN x
  ELSE LET m == IF ord # <<>> /\ Head(ord) \in todo THEN Head(ord) ELSE CHOOSE d \in todo : TRUE
           rest == IF ord # <<>> THEN Tail(ord) ELSE ord
       IN IF ord # <<>> /\ Head(ord) \notin todo THEN SendAE(x, n, todo, Tail(ord))
          ELSE IF m \notin x.s.conn
          THEN SendAE(WithS(x, [x.s EXCEPT !.trans = IF m \in DOMAIN @ THEN RemoveKey(@, m) ELSE @]), n, todo \ {m}, rest)
          ELSE SendAE(AELoop(x, n, m, x.s.nextIdx[m], TRUE, FALSE), n, todo \ {m}, rest)

(* when the budget was used up more than appendEntriesPeriod has passed: the heartbeat is due again *)
SendAppendEntries(x, n) ==
  LET x0 == [x EXCEPT !.s = [x.s EXCEPT !.hbDue = FALSE], !.left = x.cut, !.cutHit = FALSE]
      x1 == SendAE(x0, n, x.s.others \cup x.s.ro, x.ord)
  IN IF x1.cutHit THEN WithS(x1, [x1.s EXCEPT !.hbDue = TRUE]) ELSE x1

(* __onBecomeLeader *)
BecomeLeader(x, n) ==
  LET s == x.s
      peers == s.others \cup s.ro
      s1 == [s EXCEPT !.leader = n, !.role = "L",
                      !.nextIdx = [m \in (DOMAIN s.nextIdx) \cup peers |->
                                     IF m \in peers THEN LastIdx(s) + 1 ELSE s.nextIdx[m]],
                      !.matchIdx = [m \in (DOMAIN s.matchIdx) \cup peers |->
                                     IF m \in peers THEN 0 ELSE s.matchIdx[m]],
                      !.fresh = peers,
                      \* (a snapshot transfer begun in an earlier leadership is not continued: the receiver may have
                      \* ignored pieces of it; it starts again from the first piece)
                      !.trans = IF (DOMAIN s.trans) \ peers = {} THEN <<>> ELSE [m \in (DOMAIN s.trans) \ peers |-> s.trans[m]]]
      s2 == [s1 EXCEPT !.log = Append(@, Entry(LastIdx(s) + 1, s.term, NoopCmd, 1)),
                       !.noopIdx = LastIdx(s) + 1]
      x1 == WithS(x, s2)
      x2 == IF UseBatch THEN x1 ELSE SendAppendEntries(x1, n)
  IN SendAppendEntries(x2, n)

-----------------------------------------------------------------------------
(* __loadDumpFile(clearJournal) of the snapshot held; an unreadable blob leaves everything as it was.  At     *)
(* start-up (clearJournal = FALSE) the journal is kept only if it begins with exactly the snapshot's two       *)
(* entries.                                                                                                     *)
LoadSnapshot(x, n, clearJournal) ==
  LET s == x.s IN
  IF ~HasSnap(s) THEN x
  ELSE LET c == snaps[s.snap]
           keep == ~clearJournal /\ Len(s.log) >= 2 /\ s.log[1] = c.prev /\ s.log[2] = c.last
           \* the journal still starts before the snapshot (stopped between dump write and journal trim): trim it now
           trim == ~clearJournal /\ ~keep /\ EntriesFromN(s, c.prev.idx, 2) = <<c.prev, c.last>>
           s1 == [s EXCEPT !.hist = c.hist, !.ver = c.ver, !.applied = c.last.idx,
                           !.log = IF keep THEN @ ELSE IF trim THEN DeleteTo(s, c.prev.idx) ELSE <<c.prev, c.last>>]
       IN IF Membership THEN UpdateCluster(WithS(x, s1), n, c.cluster \ {n}) ELSE WithS(x, s1)

(* _onTick, block by block *)

ElectionStep(x, n) ==
  LET s == x.s IN
  IF s.role \in {"F", "C"} /\ s.elDue /\ (s.conn # {} \/ s.others = {})
  THEN LET s1 == [s EXCEPT !.elDue = FALSE, !.leader = Nil, !.role = "C", !.term = @ + 1,
                           !.votedFor = n, !.votes = 1,
                           !.metaCommit = IF Journal THEN s.commit ELSE @]   \* .meta rewritten with term and vote
           rv == [t |-> "rv", term |-> s1.term, lli |-> LastIdx(s), llt |-> LastTerm(s)]
           x1 == SndAll(WithS(x, s1), n, s1.others, rv)
           x2 == OnLeaderChanged(x1)
       IN IF IsMajority(x2.s, x2.s.votes) THEN BecomeLeader(x2, n) ELSE x2
  ELSE x

(* leader commit rule *)
RECURSIVE CommitScan(_, _, _)
CommitScan(s, ci, best) ==
  IF ci >= LastIdx(s) THEN best
  ELSE LET c == ci + 1
           cnt == 1 + Cardinality({m \in s.others : s.matchIdx[m] >= c})
       IN IF ~IsMajority(s, cnt) THEN best
          ELSE LET es == EntriesFromN(s, c, 1)
               IN IF es = <<>> \/ es[1].term # s.term THEN CommitScan(s, c, best)
                  ELSE CommitScan(s, c, c)

LeaderStep(x, n) ==
  LET s == x.s IN
  IF s.role # "L" THEN x
  ELSE LET nc == CommitScan(s, s.commit, s.commit)
           s1 == [s EXCEPT !.commit = nc, !.lci = nc]
           cnt == 1 + Cardinality(s1.others \cap s1.fresh)
           s2 == IF ~IsMajority(s1, cnt) THEN [s1 EXCEPT !.role = "F", !.leader = Nil, !.fresh = {}, !.hbDue = FALSE]
                 ELSE s1
       IN WithS(x, s2)

(* __applyLogEntries; commands of the free state machine append <<position, id, variant>> to hist *)
(* and return the new length.  A subscriber gets SUCCESS iff it subscribed in the entry's term.   *)
RECURSIVE FireSubs(_, _, _, _)
FireSubs(x, subs, e, res) ==
  IF subs = <<>> THEN x
  ELSE LET w == Head(subs)
       IN FireSubs(IF w.term = e.term THEN Fire(x, w.cb, res, SUCCESS) ELSE Fire(x, w.cb, -1, DISCARDED),
                   Tail(subs), e, res)

IsRegular(c) == c # NoopCmd

(* a replicated method that raises leaves the object untouched; the exception object is handed to the *)
(* subscribers as the result (projected as -2) and the node moves on to the next entry                 *)
(* state-dependent failure: the test object also keeps a set; "rm:k" raises KeyError unless k is in it (the set is a  *)
(* function of the executed commands: k is in it iff the last executed command about k was "ad:k")                    *)
SetKeys == {"1", "2"}
AdCmd(k) == "ad:" \o k
RmCmd(k) == "rm:" \o k
Repeatable(c) == \E k \in SetKeys : c \in {AdCmd(k), RmCmd(k)}
InSet(hist, k) ==
  LET idxs == {i \in 1..Len(hist) : hist[i][2] \in {AdCmd(k), RmCmd(k)}}
  IN idxs # {} /\ hist[CHOOSE i \in idxs : \A j \in idxs : j <= i][2] = AdCmd(k)
RaisesNow(s, c) == c \in Raisers \/ \E k \in SetKeys : c = RmCmd(k) /\ ~InSet(s.hist, k)

ApplyOne(x, n, e) ==
  LET s == x.s
      subs == SelectSeq(s.wc, LAMBDA w : w.idx = e.idx)
      rest == SelectSeq(s.wc, LAMBDA w : w.idx # e.idx)
      s1 == [s EXCEPT !.wc = rest]
      executes == IsRegular(e.cmd) /\ ~RaisesNow(s, e.cmd) /\ ~IsMemb(e.cmd)
      s2 == IF executes THEN [s1 EXCEPT !.hist = Append(@, <<s.applied + 1, e.cmd, 0>>)] ELSE s1
      res == IF executes THEN Len(s2.hist) ELSE IF RaisesNow(s, e.cmd) THEN -2 ELSE -1
      \* membership entries are (re)applied here too: needed after a restart, otherwise without effect
      xm == IF IsMemb(e.cmd) THEN DoChange(WithS(x, s2), n, MembReq(e.cmd), FALSE).x ELSE WithS(x, s2)
      x1 == FireSubs(xm, subs, e, res)
  IN WithS(x1, [x1.s EXCEPT !.applied = @ + 1])

RECURSIVE ApplyLoop(_, _, _)
ApplyLoop(x, n, es) == IF es = <<>> \/ x.exc THEN x ELSE ApplyLoop(ApplyOne(x, n, Head(es)), n, Tail(es))

ApplyStep(x, n) ==
  LET s == x.s IN
  IF s.commit > s.applied
  THEN ApplyLoop(x, n, EntriesFromN(s, s.applied + 1, s.commit - s.applied))
  ELSE x

(* commandsWaitingCommit is a dict idx -> list; the projection orders it by idx, then insertion *)
WcInsert(wc, ins) ==
  SelectSeq(wc, LAMBDA w : w.idx <= ins.idx) \o <<ins>> \o SelectSeq(wc, LAMBDA w : w.idx > ins.idx)

(* _checkCommandsToApply *)
CmdrOk(rid, idx, term) == [t |-> "cmdr", rid |-> rid, idx |-> idx, term |-> term, err |-> 0]
CmdrErr(rid, err) == [t |-> "cmdr", rid |-> rid, idx |-> 0, term |-> 0, err |-> err]

(* a reply to the node a forwarded command came from.  A read-only node is known to the transport under *)
(* the counter id of its connection (cb.ro); after it reconnected that id names nobody and send fails.   *)
SndCb(x, n, cb, msg) ==
  IF cb.ro = -1 THEN Snd(x, n, cb.n, msg)
  ELSE IF cb.n \in DOMAIN x.s.roid /\ x.s.roid[cb.n] = cb.ro THEN Snd(x, n, cb.n, msg) ELSE x

(* __callErrCallback *)
ErrCallback(x, n, cb, err) ==
  IF cb.k = "fwd" THEN SndCb(x, n, cb, CmdrErr(cb.rid, err))
  ELSE Fire(x, cb, -1, err)

RECURSIVE QueueStep(_, _)
QueueStep(x, n) ==
  LET s == x.s IN
  IF s.queue = <<>> \/ (s.leader = Nil /\ WaitLeader) THEN x
  ELSE LET q == Head(s.queue)
           s0 == [s EXCEPT !.queue = Tail(@)]
       IN IF s.role = "L"
          THEN LET idx == LastIdx(s) + 1
                   req == IF Membership THEN MembReq(q.cmd) ELSE [k |-> "none"]
                   \* __changeCluster: refused before the leader's own no-op is applied and while an earlier
                   \* change is uncommitted
                   sg == IF s0.chgIdx # -1 /\ s0.applied >= s0.chgIdx THEN [s0 EXCEPT !.chgIdx = -1] ELSE s0
                   gateOpen == s0.applied >= s0.noopIdx /\ sg.chgIdx = -1
                   chg == IF req.k # "none" /\ gateOpen THEN DoChange(WithS(x, sg), n, req, FALSE)
                          ELSE [x |-> WithS(x, IF req.k # "none" /\ s0.applied >= s0.noopIdx THEN sg ELSE s0), ok |-> FALSE]
               IN IF req.k = "none" \/ chg.ok
                  THEN LET xb == IF req.k = "none" THEN WithS(x, s0) ELSE chg.x
                           s1 == [xb.s EXCEPT !.log = Append(@, Entry(idx, s.term, q.cmd, q.sz)),
                                              !.chgIdx = IF req.k # "none" THEN idx ELSE @]
                           x1 == IF q.cb.k = "fwd" THEN SndCb(WithS(xb, s1), n, q.cb, CmdrOk(q.cb.rid, idx, s.term))
                                 ELSE IF q.cb.k = "cb"
                                      THEN WithS(xb, [s1 EXCEPT !.wc = WcInsert(@, [idx |-> idx, term |-> s.term, cb |-> q.cb])])
                                      ELSE WithS(xb, s1)
                           x2 == IF UseBatch THEN x1 ELSE SendAppendEntries(x1, n)
                           \* the drain loop has a time budget too: if the send loop used up more than appendEntriesPeriod, it ends
                       IN IF (~UseBatch) /\ x2.cutHit THEN x2 ELSE QueueStep(x2, n)
                  ELSE QueueStep(ErrCallback(chg.x, n, q.cb, REQUEST_DENIED), n)
          ELSE IF s.leader # Nil
          THEN IF q.cb.k = "fwd"
               THEN QueueStep(SndCb(WithS(x, s0), n, q.cb, CmdrErr(q.cb.rid, NOT_LEADER)), n)
               ELSE IF q.cb.k = "cb"
                    THEN LET s1 == [s0 EXCEPT !.rcnt = @ + 1,
                                              !.wr = Append(@, [rid |-> s.rcnt + 1, cb |-> q.cb])]
                         IN QueueStep(Snd(WithS(x, s1), n, s.leader,
                                          [t |-> "cmd", cmd |-> q.cmd, sz |-> q.sz, rid |-> s.rcnt + 1]), n)
                    ELSE QueueStep(Snd(WithS(x, s0), n, s.leader,
                                       [t |-> "cmd", cmd |-> q.cmd, sz |-> q.sz, rid |-> 0]), n)
          ELSE QueueStep(ErrCallback(WithS(x, s0), n, q.cb, MISSING_LEADER), n)

(* __tryLogCompaction (serializer in memory, or to a file without fork: serialization completes inside the   *)
(* call and is acknowledged by checkSerializing on the next tick).  orc = [sid, size]: identity and byte size *)
(* of the blob a serialization in this step produces (an input: gzip/pickle are not modelled).               *)

CompactStep(x, n, orc) ==
  LET s == x.s
      st == IF Fork /\ DumpFile
            THEN (IF s.serPid # 1 THEN "NOT"
                  ELSE IF s.child.st = "run" THEN "SERIALIZING" ELSE IF s.child.st = "ok" THEN "SUCCESS" ELSE "FAILED")
            ELSE (IF s.serPid = -1 THEN "SUCCESS" ELSE IF s.serPid = -2 THEN "FAILED" ELSE "NOT")
      \* os.waitpid reaps the child; only a successful one resets the transfers in progress
      s1 == IF st \in {"SUCCESS", "FAILED"}
            THEN [s EXCEPT !.serPid = 0, !.child = [st |-> "none"],
                           !.trans = IF st = "SUCCESS" \/ ~(Fork /\ DumpFile) THEN <<>> ELSE @]
            ELSE s
      s2 == IF st = "SUCCESS" THEN [s1 EXCEPT !.log = DeleteTo(s1, s1.serId), !.lse = s1.serId] ELSE s1
  IN IF st # "NOT" THEN WithS(x, s2)
     ELSE IF Len(s2.log) <= CompactMin /\ ~s2.force THEN WithS(x, s2)
     ELSE LET s3 == [s2 EXCEPT !.force = FALSE]
              la == EntriesFromN(s3, s3.applied - 1, 2)
          IN IF Len(la) < 2 \/ la[1].idx = s3.lse THEN WithS(x, s3)
             ELSE LET content == [size |-> orc.size, last |-> la[2], prev |-> la[1], hist |-> s3.hist,
                                  cluster |-> s3.others \cup (IF n \in Observers THEN {} ELSE {n}), ver |-> s3.ver,
                                  \* the member set is the CURRENT view: it includes membership entries appended after the
                                  \* snapshot position (known finding KF6); remember whether there were any
                                  ahead |-> \E q \in 1..Len(s3.log) : s3.log[q].idx > la[2].idx /\ IsMemb(s3.log[q].cmd)]
                  IN IF Fork /\ DumpFile
                     THEN \* the child holds a copy of the state as of now; the file changes when it finishes (ChildDone)
                          WithS(x, [s3 EXCEPT !.serId = la[1].idx, !.serPid = 1, !.child = [st |-> "run", content |-> [content EXCEPT !.size = 0]]])
                     ELSE LET s4 == [s3 EXCEPT !.serId = la[1].idx, !.snap = orc.sid, !.serPid = -1]
                          IN [WithS(x, s4) EXCEPT !.news = Append(@, [sid |-> orc.sid, content |-> content])]

(* mt: the once-per-second timer of the journal fires in this tick and stores the commit index in .meta *)
TickCtx(n, adv, cut, orc, ord, mt) ==
  LET s0 == node[n]
      sA == [s0 EXCEPT !.elDue = @ \/ adv = "j",
                       !.hbDue = s0.role = "L" /\ (@ \/ adv # "z"),
                       !.fresh = IF adv \in {"m", "j"} THEN {} ELSE @,
                       !.needLoad = FALSE]
      xL == [Ctx(sA) EXCEPT !.cut = cut, !.left = cut, !.ord = ord]
      \* first tick of a process: load the dump file if there is one
      xM == IF s0.needLoad /\ DumpFile THEN LoadSnapshot(xL, n, FALSE) ELSE xL
      x0 == IF mt /\ Journal THEN WithS(xM, [xM.s EXCEPT !.metaCommit = xM.s.commit]) ELSE xM
      x1 == IF n \in Observers THEN x0 ELSE ElectionStep(x0, n)
      x2 == LeaderStep(x1, n)
      x3 == ApplyStep(x2, n)
      needSend == (~UseBatch) /\ x2.s.commit > x2.s.applied
      x4 == IF x3.exc THEN x3
            ELSE IF x3.s.role = "L" /\ (x3.s.hbDue \/ needSend) THEN SendAppendEntries(x3, n) ELSE x3
      x5 == IF x4.exc THEN x4
            ELSE IF ~x4.s.ready /\ x4.s.applied = x4.s.lci THEN WithS(x4, [x4.s EXCEPT !.ready = TRUE]) ELSE x4
      x6 == IF x5.exc THEN x5 ELSE QueueStep(x5, n)
      x7 == IF x6.exc THEN x6 ELSE CompactStep(x6, n, orc)
  IN x7

-----------------------------------------------------------------------------
(* __onMessageReceived *)

NNI(next, reset, success) == [t |-> "nni", next |-> next, reset |-> reset, success |-> success]

OnRequestVote(x, n, from, m) ==
  LET s0 == x.s
      s1 == IF m.term > s0.term
            THEN [s0 EXCEPT !.term = m.term, !.votedFor = Nil, !.role = "F", !.leader = Nil,
                            !.fresh = {}, !.hbDue = FALSE, !.metaCommit = IF Journal THEN s0.commit ELSE @]
            ELSE s0
  IN IF /\ s1.role \in {"F", "C"}
        /\ m.term >= s1.term
        /\ ~(m.llt < LastTerm(s1))
        /\ ~(m.llt = LastTerm(s1) /\ m.lli < LastIdx(s1))
        /\ s1.votedFor = Nil
     THEN Snd(WithS(x, [s1 EXCEPT !.votedFor = from, !.elDue = FALSE, !.metaCommit = IF Journal THEN s1.commit ELSE @]),
              n, from, [t |-> "vote", term |-> m.term])
     ELSE WithS(x, s1)

OnAppendEntries(x, n, from, m) ==
  LET s0 == x.s IN
  IF m.term < s0.term THEN x
  ELSE
    LET xa == IF s0.leader # from THEN OnLeaderChanged(x) ELSE x
        sa == xa.s
        s1 == [sa EXCEPT !.elDue = FALSE, !.leader = from, !.term = m.term,
                         !.votedFor = IF m.term > s0.term THEN Nil ELSE @,
                         !.metaCommit = IF Journal /\ m.term > s0.term THEN s0.commit ELSE @,
                         !.role = "F", !.lci = m.commit, !.fresh = {}, !.hbDue = FALSE]
        prevs == IF m.prevIdx = -1 THEN <<>> ELSE EntriesFrom(s1, m.prevIdx)
    IN IF prevs = <<>>
       THEN Snd(WithS(xa, s1), n, from, NNI(LastIdx(s1) + 1, TRUE, FALSE))
       ELSE IF prevs[1].term # m.prevTerm
       THEN Snd(WithS(xa, s1), n, from, NNI(m.prevIdx, TRUE, FALSE))
       ELSE LET existing == Tail(prevs)
                \* entries we already hold with the same term are kept; truncate from the first conflict only
                nm == CHOOSE k \in 0..Min(Len(existing), Len(m.entries)) :
                        /\ \A q \in 1..k : existing[q].term = m.entries[q].term
                        /\ (k < Min(Len(existing), Len(m.entries)) => existing[k + 1].term # m.entries[k + 1].term)
                toAdd == SubSeq(m.entries, nm + 1, Len(m.entries))
                trunc == toAdd # <<>> /\ nm < Len(existing)
                \* membership entries take effect when appended and are rolled back when truncated
                xr == IF trunc /\ Membership THEN ChangeAll(WithS(xa, s1), n, SubSeq(existing, nm + 1, Len(existing)), TRUE)
                      ELSE WithS(xa, s1)
                kept == IF trunc THEN SubSeq(xr.s.log, 1, m.prevIdx - FirstIdx(xr.s) + 1 + nm) ELSE xr.s.log
                s2 == [xr.s EXCEPT !.log = kept \o toAdd]
                xc == IF Membership THEN ChangeAll(WithS(xr, s2), n, toAdd, FALSE) ELSE WithS(xr, s2)
                nxt == IF m.entries # <<>> THEN Last(m.entries).idx + 1 ELSE m.prevIdx + 1
                \* only the entries up to the last one of this message are known to match the leader's log
                nc == Min(m.commit, nxt - 1)
                s3 == IF nc > xc.s.commit THEN [xc.s EXCEPT !.commit = nc] ELSE xc.s
            IN Snd(WithS(xc, s3), n, from, NNI(nxt, FALSE, TRUE))

(* append_entries carrying a snapshot chunk ('serialized'), or nothing at all while the leader has no data *)
WellFormed(chunks) ==
  /\ chunks # <<>>
  /\ \A k \in 1..Len(chunks) : chunks[k].sid = chunks[1].sid
  /\ chunks[1].sid \in DOMAIN snaps
  /\ chunks[1].off = 0
  /\ \A k \in 1..(Len(chunks) - 1) : chunks[k + 1].off = chunks[k].off + chunks[k].len
  /\ Last(chunks).off + Last(chunks).len = snaps[chunks[1].sid].size

OnSnapshotChunk(x, n, from, m) ==
  LET s0 == x.s IN
  IF m.term < s0.term THEN x
  ELSE
    LET xa == IF s0.leader # from THEN OnLeaderChanged(x) ELSE x
        sa == xa.s
        s1 == [sa EXCEPT !.elDue = FALSE, !.leader = from, !.term = m.term,
                         !.votedFor = IF m.term > s0.term THEN Nil ELSE @,
                         !.metaCommit = IF Journal /\ m.term > s0.term THEN s0.commit ELSE @,
                         !.role = "F", !.lci = m.commit, !.fresh = {}, !.hbDue = FALSE]
        chunk == [sid |-> m.sid, off |-> m.off, len |-> m.len]
        \* Serializer.setTransmissionData
        accept == m.has /\ (m.first \/ s1.incoming.has)
        buf == IF ~accept THEN <<>> ELSE IF m.first THEN <<chunk>> ELSE Append(s1.incoming.chunks, chunk)
        done == accept /\ m.last
        s2 == IF ~accept THEN s1
              ELSE IF done THEN [s1 EXCEPT !.incoming = [has |-> FALSE],
                                           !.snap = IF WellFormed(buf) THEN buf[1].sid ELSE "garbage",
                                           \* a forked writer that is still dumping an older state is killed first: it must not
                                           \* replace the snapshot installed now when it finishes (one that has ended and has
                                           \* not been reaped yet is reaped here: its outcome is never reported)
                                           !.child = IF Fork /\ DumpFile /\ s1.serPid = 1 THEN [st |-> "none"] ELSE @,
                                           !.serPid = IF Fork /\ DumpFile /\ s1.serPid = 1 THEN 0 ELSE @]
              ELSE [s1 EXCEPT !.incoming = [has |-> TRUE, known |-> TRUE, chunks |-> buf]]
        xl == IF done THEN LoadSnapshot(WithS(xa, s2), n, TRUE) ELSE WithS(xa, s2)
        s3 == xl.s
        xb == IF done THEN Snd(xl, n, from, NNI(LastIdx(s3) + 1, FALSE, TRUE)) ELSE xl
        s4 == xb.s
        \* a completely installed snapshot is committed state; a partial chunk does not move the commit index
        s5 == IF done /\ s4.applied > s4.commit THEN [s4 EXCEPT !.commit = s4.applied] ELSE s4
    IN WithS(xb, s5)

OnCmd(x, n, from, m) ==
  LET s == x.s
      cb == IF m.rid # 0 THEN [k |-> "fwd", n |-> from, rid |-> m.rid,
                               ro |-> IF from \in DOMAIN s.roid THEN s.roid[from] ELSE -1]
            ELSE [k |-> "none"]
  IN IF Len(s.queue) > QueueSize
     THEN ErrCallback(x, n, cb, QUEUE_FULL)
     ELSE WithS(x, [s EXCEPT !.queue = Append(@, [cmd |-> m.cmd, sz |-> m.sz, cb |-> cb])])

OnCmdResponse(x, n, from, m) ==
  LET s == x.s
      hit == SelectSeq(s.wr, LAMBDA w : w.rid = m.rid)
      s1 == [s EXCEPT !.wr = SelectSeq(@, LAMBDA w : w.rid # m.rid)]
  IN IF hit = <<>> THEN x
     ELSE IF m.err # 0 THEN Fire(WithS(x, s1), hit[1].cb, -1, m.err)
     ELSE IF ~(m.idx > s.applied) THEN [WithS(x, s1) EXCEPT !.exc = TRUE]     \* assert idx > lastApplied
     ELSE WithS(x, [s1 EXCEPT !.wc = WcInsert(@, [idx |-> m.idx, term |-> m.term, cb |-> hit[1].cb])])

OnVote(x, n, from, m) ==
  LET s == x.s IN
  IF s.role = "C" /\ m.term = s.term
  THEN LET x1 == WithS(x, [s EXCEPT !.votes = @ + 1])
       IN IF IsMajority(x1.s, x1.s.votes) THEN BecomeLeader(x1, n) ELSE x1
  ELSE x

OnNextNodeIdx(x, n, from, m) ==
  LET s == x.s IN
  IF s.role # "L" THEN x
  ELSE LET s1 == IF m.reset THEN [s EXCEPT !.nextIdx = [k \in DOMAIN @ \cup {from} |-> IF k = from THEN m.next ELSE @[k]]] ELSE s
           s2 == IF m.success /\ s1.matchIdx[from] < m.next - 1
                 THEN [s1 EXCEPT !.matchIdx[from] = m.next - 1,
                                 !.nextIdx = [k \in DOMAIN @ \cup {from} |-> IF k = from THEN m.next ELSE @[k]]]
                 ELSE s1
       IN WithS(x, [s2 EXCEPT !.fresh = @ \cup {from}])

MsgCtx(n, from, m, ord) ==
  LET x == [Ctx(node[n]) EXCEPT !.ord = ord] IN
  CASE m.t = "rv"   -> IF n \notin Observers THEN OnRequestVote(x, n, from, m) ELSE x
    [] m.t = "ae"   -> OnAppendEntries(x, n, from, m)
    [] m.t = "aes"  -> OnSnapshotChunk(x, n, from, m)
    [] m.t = "vote" -> OnVote(x, n, from, m)
    [] m.t = "nni"  -> OnNextNodeIdx(x, n, from, m)
    [] m.t = "cmd"  -> OnCmd(x, n, from, m)
    [] m.t = "cmdr" -> OnCmdResponse(x, n, from, m)
    [] OTHER        -> x

-----------------------------------------------------------------------------
(* putting a step context into the global state *)
MsgsTo(out, j) ==
  LET sel == SelectSeq(out, LAMBDA o : o.to = j) IN [k \in 1..Len(sel) |-> sel[k].msg]

(* what n writes to a peer it has registered reaches that peer only over the connection n has registered: while the peer's *)
(* hello on a NEW connection is still unread here, n's registration (if any) is the old, dead connection                   *)
Rebinding(ch, n, j) == ch[j][n] # <<>> /\ Head(ch[j][n]).t = "hello"
Flush(ch, al, n, out) ==
  [i \in Nodes |-> [j \in Nodes |->
      IF i = n /\ {i, j} \in al /\ ~Rebinding(ch, n, j) THEN ch[i][j] \o MsgsTo(out, j) ELSE ch[i][j]]]

RECURSIVE ApplyEv(_, _)
ApplyEv(c, ev) ==
  IF ev = <<>> THEN c
  ELSE LET e == Head(ev)
           cur == IF e.cid \in DOMAIN c THEN c[e.cid] ELSE <<>>
           c1 == [k \in DOMAIN c \cup {e.cid} |-> IF k = e.cid THEN Append(cur, <<e.res, e.err>>) ELSE c[k]]
       IN ApplyEv(c1, Tail(ev))

AddSnaps(sn, news) ==
  [k \in DOMAIN sn \cup {news[q].sid : q \in 1..Len(news)} |->
     IF k \in DOMAIN sn THEN sn[k] ELSE news[CHOOSE q \in 1..Len(news) : news[q].sid = k].content]

(* connections closed by transport.dropNode in this step: gone at once on this side, in-flight data lost *)
(* (only connections this side has registered: an incoming one whose first message is still unread is not   *)
(* known under the peer's name yet - it is refused when that message is read)                              *)
DroppedUp(n, x) == {d \in x.dropped : <<n, d>> \in up}
ExpAlive(n, x, al) == al \ {{n, d} : d \in DroppedUp(n, x)}
ExpUp(n, x) == up \ {<<n, d>> : d \in DroppedUp(n, x)}
ExpChan(n, x, ch, al) ==
  LET ch1 == Flush(ch, al, n, x.out) IN
  [i \in Nodes |-> [j \in Nodes |->
     IF (i = n /\ j \in DroppedUp(n, x)) \/ (j = n /\ i \in DroppedUp(n, x)) THEN <<>> ELSE ch1[i][j]]]

Commit(n, x, ch, al) ==
  /\ node' = [node EXCEPT ![n] = x.s]
  /\ chan' = ExpChan(n, x, ch, al)
  /\ alive' = ExpAlive(n, x, al)
  /\ up' = ExpUp(n, x)
  /\ cbs' = ApplyEv(cbs, x.ev)
  /\ nexc' = IF x.exc THEN nexc + 1 ELSE nexc
  /\ snaps' = AddSnaps(snaps, x.news)

-----------------------------------------------------------------------------
(* actions *)
Advs == {"z", "h", "m", "j"}

Tick(n, adv, cut, orc, ord, mt) ==
  /\ node[n].alive
  /\ Commit(n, TickCtx(n, adv, cut, orc, ord, mt), chan, alive)

(* forceLogCompaction() *)
Compact(n) ==
  /\ node[n].alive
  /\ node' = [node EXCEPT ![n].force = TRUE]
  /\ UNCHANGED <<chan, alive, up, cbs, nexc, snaps>>

(* first message on a new incoming connection: the acceptor binds it to the member *)
Hello(i, j) ==
  IF i \in Observers
  THEN \* 'readonly': the transport invents a node id from a counter and reports a read-only node
       /\ up' = up \cup {<<j, i>>}
       /\ node' = [node EXCEPT ![j] = [@ EXCEPT !.ro = @ \cup {i}, !.conn = @ \cup {i},
                                             !.nextIdx = SetKey(@, i, LastIdx(node[j]) + 1),
                                             !.matchIdx = SetKey(@, i, 0),
                                             !.roid = SetKey(@, i, node[j].rocnt), !.rocnt = @ + 1]]
       /\ chan' = [chan EXCEPT ![i][j] = Tail(@)]
       /\ UNCHANGED <<alive, cbs, nexc, snaps>>
  ELSE IF i \in node[j].others
  THEN /\ up' = up \cup {<<j, i>>}
       \* (a snapshot transfer to i does not survive the reconnect: it restarts from the first piece)
       /\ node' = [node EXCEPT ![j] = [@ EXCEPT !.conn = @ \cup {i}, !.trans = IF i \in DOMAIN @ THEN RemoveKey(@, i) ELSE @]]
       /\ chan' = [chan EXCEPT ![i][j] = Tail(@)]
       /\ UNCHANGED <<alive, cbs, nexc, snaps>>
  ELSE \* unknown address: the acceptor closes the connection
       /\ up' = up \ {<<j, i>>}
       /\ alive' = alive \ {{i, j}}
       /\ chan' = [chan EXCEPT ![i][j] = <<>>, ![j][i] = <<>>]
       /\ UNCHANGED <<node, cbs, nexc, snaps>>

Deliver(i, j) ==
  /\ chan[i][j] # <<>>
  /\ node[j].alive
  /\ LET m == Head(chan[i][j]) IN
     IF m.t = "hello" THEN Hello(i, j)
     ELSE IF i \notin node[j].others \cup node[j].ro
          THEN \* a connection that the transport no longer associates with a member: nothing is delivered
               /\ chan' = [chan EXCEPT ![i][j] = Tail(@)] /\ UNCHANGED <<node, alive, up, cbs, nexc, snaps>>
          ELSE Commit(j, MsgCtx(j, i, m, <<>>), [chan EXCEPT ![i][j] = Tail(@)], alive)

CbOf(c, wantCb) == IF wantCb THEN [k |-> "cb", cid |-> c] ELSE [k |-> "none"]

(* a replicated call: _applyCommand puts (command, callback) into the queue, or QUEUE_FULL.  cid names the  *)
(* callback, cmd the command (they differ for membership / version requests).                               *)
SubmitCtx(n, cid, cmd, z, wantCb) ==
  LET s == node[n]
      cb == CbOf(cid, wantCb)
  IN IF Len(s.queue) > QueueSize THEN Fire(Ctx(s), cb, -1, QUEUE_FULL)
     ELSE Ctx([s EXCEPT !.queue = Append(@, [cmd |-> cmd, sz |-> z, cb |-> cb])])

SubmitCmd(n, cid, cmd, z, wantCb) ==
  /\ node[n].alive
  /\ Commit(n, SubmitCtx(n, cid, cmd, z, wantCb), chan, alive)

SubmitOp(n, c, z, wantCb) == SubmitCmd(n, c, c, z, wantCb)

(* an operator starts a node that is not running (a spare that is being added, or a removed / crashed node *)
(* returning as a fresh empty process) with the member list `members`                                      *)
GenOf(s) == s.rcnt \div 1000          \* which process of its node a running process is (read off its request ids)
StartFresh(n, members) ==
  /\ ~node[n].alive
  \* (request ids of a process start at a value of its own - 1000 * the number of processes this node has had before it)
  /\ node' = [node EXCEPT ![n] = [InitNode(n) EXCEPT !.others = members \ {n}, !.conn = {}, !.rcnt = 1000 * node[n].gen]]
  /\ UNCHANGED <<chan, alive, up, cbs, nexc, snaps>>

(* a process is stopped: its connections die (the peers notice on their own), its memory is gone *)
Stop(n) ==
  /\ node[n].alive
  /\ node' = [node EXCEPT ![n] = [alive |-> FALSE, gen |-> GenOf(node[n]) + 1]]
  /\ alive' = {p \in alive : n \notin p}
  /\ up' = {u \in up : u[1] # n}
  /\ chan' = [i \in Nodes |-> [j \in Nodes |-> IF i = n \/ j = n THEN <<>> ELSE chan[i][j]]]
  /\ UNCHANGED <<cbs, nexc, snaps>>

(* what a restart finds on disk after the process was killed between two steps: the file journal mirrors the *)
(* in-memory log, .meta holds the commit index last stored by the timer, the dump file the snapshot held     *)
DiskOf(s) == [jlog |-> s.log, torn |-> FALSE, meta |-> s.metaCommit, dump |-> IF DumpFile THEN s.snap ELSE "none",
              term |-> s.term, votedFor |-> s.votedFor]     \* term and vote are stored in .meta when they change

Crash(n) ==
  /\ Journal /\ node[n].alive
  /\ node' = [node EXCEPT ![n] = [alive |-> FALSE, disk |-> DiskOf(node[n]), gen |-> GenOf(node[n]) + 1]]
  /\ alive' = {p \in alive : n \notin p}
  /\ up' = {u \in up : u[1] # n}
  \* what the dead process had already sent is still on its way (the kernel delivers it before the end-of-stream)
  \* to every peer that has not noticed the loss of the connection; what was on its way to it is lost
  /\ chan' = [i \in Nodes |-> [j \in Nodes |->
                IF j = n THEN <<>> ELSE IF i = n THEN (IF <<j, n>> \in up THEN chan[n][j] ELSE <<>>) ELSE chan[i][j]]]
  /\ UNCHANGED <<cbs, nexc, snaps>>

(* SyncObj.__init__ on the files a dead process left behind *)
RestartNode(n, d) ==
  [InitNode(n) EXCEPT !.log = IF d.jlog = <<>> THEN <<Entry(1, 0, NoopCmd, 1)>> ELSE d.jlog,
                      !.commit = d.meta, !.metaCommit = d.meta, !.snap = d.dump, !.conn = {},
                      !.term = d.term, !.votedFor = d.votedFor]

Restart(n) ==
  /\ Journal /\ ~node[n].alive /\ "disk" \in DOMAIN node[n]
  /\ node' = [node EXCEPT ![n] = [RestartNode(n, node[n].disk) EXCEPT !.rcnt = 1000 * node[n].gen]]
  \* modelling assumption: by the time a process has been started again, whatever its previous incarnation had sent
  \* has been read or dropped by the peers.  (What it had sent may still sit in a peer's queue of commands - a forwarded
  \* command waiting for a leader - and be answered to the new process: its request ids differ from the old one's.)
  /\ chan' = [chan EXCEPT ![n] = [j \in Nodes |-> <<>>]]
  /\ UNCHANGED <<alive, up, cbs, nexc, snaps>>

(* the forked dump writer finishes: the dump file is replaced atomically by the snapshot of the state at fork time *)
ChildDone(n, orc) ==
  /\ node[n].alive /\ node[n].child.st = "run"
  /\ node' = [node EXCEPT ![n] = [@ EXCEPT !.child = [st |-> "ok"], !.snap = orc.sid]]
  /\ snaps' = AddSnaps(snaps, <<[sid |-> orc.sid, content |-> [node[n].child.content EXCEPT !.size = orc.size]]>>)
  /\ UNCHANGED <<chan, alive, up, cbs, nexc>>
(* ... or is killed before the rename: the dump file stays as it was *)
ChildKilled(n) ==
  /\ node[n].alive /\ node[n].child.st = "run"
  /\ node' = [node EXCEPT ![n].child = [st |-> "fail"]]
  /\ UNCHANGED <<chan, alive, up, cbs, nexc, snaps>>

SubmitOpOld(n, c, z, wantCb) ==
  /\ node[n].alive
  /\ LET s == node[n]
         cb == CbOf(c, wantCb)
         x == IF Len(s.queue) > QueueSize THEN Fire(Ctx(s), cb, -1, QUEUE_FULL)
              ELSE Ctx([s EXCEPT !.queue = Append(@, [cmd |-> c, sz |-> z, cb |-> cb])])
     IN Commit(n, x, chan, alive)

Break(i, j) ==
  /\ {i, j} \in alive
  /\ alive' = alive \ {{i, j}}
  /\ chan' = [chan EXCEPT ![i][j] = <<>>, ![j][i] = <<>>]
  /\ UNCHANGED <<node, up, cbs, nexc, snaps>>

Notice(i, j) ==
  /\ <<i, j>> \in up /\ {i, j} \notin alive /\ node[i].alive
  /\ up' = up \ {<<i, j>>}
  /\ node' = IF j \in Observers
             THEN \* __onReadonlyNodeDisconnected
                  [node EXCEPT ![i] = [@ EXCEPT !.ro = @ \ {j}, !.conn = @ \ {j},
                                               !.nextIdx = IF j \in DOMAIN @ THEN RemoveKey(@, j) ELSE @,
                                               !.matchIdx = IF j \in DOMAIN @ THEN RemoveKey(@, j) ELSE @,
                                               !.roid = IF j \in DOMAIN @ THEN RemoveKey(@, j) ELSE @,
                                               \* (a transfer to it stays behind under the dead connection's id, unreachable)
                                               !.trans = IF j \in DOMAIN @ THEN RemoveKey(@, j) ELSE @]]
             ELSE [node EXCEPT ![i].conn = @ \ {j}]
  \* i closes its end: whatever j had sent and i has not read is gone (nothing, unless j's process died)
  /\ chan' = [chan EXCEPT ![j][i] = <<>>]
  /\ UNCHANGED <<alive, cbs, nexc, snaps>>

(* i dials j: i's side is connected at once, j's side when the hello arrives *)
Connect(i, j) ==
  /\ i # j /\ node[i].alive /\ node[j].alive
  /\ {i, j} \notin alive /\ <<i, j>> \notin up
  /\ j \in node[i].others /\ j \notin Observers
  /\ (i \in Observers) => <<j, i>> \notin up
  /\ alive' = alive \cup {{i, j}}
  /\ up' = up \cup {<<i, j>>}
  /\ chan' = [chan EXCEPT ![i][j] = <<[t |-> "hello"]>>, ![j][i] = <<>>]
  /\ node' = [node EXCEPT ![i] = [@ EXCEPT !.conn = @ \cup {j}, !.trans = IF j \in DOMAIN @ THEN RemoveKey(@, j) ELSE @]]
  /\ UNCHANGED <<cbs, nexc, snaps>>

=============================================================================

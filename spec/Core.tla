-------------------------------- MODULE Core --------------------------------
(***************************************************************************)
(* PySyncObj cluster at the implementation's grain of atomicity.           *)
(*                                                                         *)
(* One action per real entry point of one real node:                       *)
(*   Tick(n, adv)   = SyncObj._onTick on node n after its clock advanced   *)
(*                    by the scale adv (z: nothing, h: > appendEntries-    *)
(*                    Period, m: > leaderFallbackTimeout, j: > raftMax-    *)
(*                    Timeout)                                             *)
(*   Deliver(i, j)  = SyncObj.__onMessageReceived at j for the head of the *)
(*                    FIFO channel i -> j (or the transport-level hello    *)
(*                    that binds a new incoming connection)                *)
(*   Submit(n, c)   = a replicated call on node n (enqueue only)           *)
(*   Break / Notice / Connect = connection faults as the transport sees    *)
(*                    them (both ends notice independently)                *)
(*   Compact(n)     = forceLogCompaction()                                 *)
(* Each action is the sequential composition of the same sub-steps, in the *)
(* same order, as the code (syncobj.py); the model describes what the code *)
(* does, including behaviour believed wrong.  All steps are functions      *)
(* from a node record to a step context [s, out, ev] (new node record,     *)
(* messages sent in order, callbacks fired in order), so that trace        *)
(* validation can compare the computed successor with the projected state  *)
(* of the real objects field by field (CoreTrace.tla).                     *)
(***************************************************************************)
EXTENDS Naturals, Integers, Sequences, FiniteSets, TLC

CONSTANTS
  Nodes,          \* all simulator node ids
  Voters0,        \* initial voting members
  Nil,
  BatchBytes,     \* appendEntriesBatchSizeBytes
  UseBatch,       \* appendEntriesUseBatch
  WaitLeader,     \* commandsWaitLeader
  QueueSize,      \* commandsQueueSize
  Observers,      \* read-only nodes (started without an own address)
  Membership,     \* dynamicMembershipChange
  CompactMin,     \* logCompactionMinEntries
  SnapChunk,      \* logCompactionBatchSize (bytes per snapshot chunk)
  SpecialCids,    \* callback ids of submissions that are not regular commands (membership, version)
  InitConnected   \* start from a fully connected mesh (saves depth in exhaustive runs)

VARIABLES
  node,           \* node[n] : record, see InitNode
  chan,           \* chan[i][j] : FIFO of messages in flight on the connection i -> j
  alive,          \* set of {i,j}: the physical connection exists
  up,             \* set of <<i,j>>: endpoint i has j registered as connected (send returns True)
  cbs,            \* command id -> sequence of <<result, error>> : callbacks fired so far
  nexc            \* number of exceptions that escaped an entry point

vars == <<node, chan, alive, up, cbs, nexc>>

-----------------------------------------------------------------------------
(* FAIL_REASON *)
SUCCESS == 0  QUEUE_FULL == 1  MISSING_LEADER == 2  DISCARDED == 3
NOT_LEADER == 4  LEADER_CHANGED == 5  REQUEST_DENIED == 6

NoopCmd == "noop"
Entry(i, t, c, z) == [idx |-> i, term |-> t, cmd |-> c, sz |-> z]

Max(a, b) == IF a > b THEN a ELSE b
Min(a, b) == IF a < b THEN a ELSE b
Last(q) == q[Len(q)]
SeqToSet(q) == {q[k] : k \in 1..Len(q)}

LastIdx(s)  == Last(s.log).idx
LastTerm(s) == Last(s.log).term
FirstIdx(s) == s.log[1].idx
(* __getEntries(fromIDx, count): positional slice relative to the first entry's index *)
EntriesFrom(s, i) == IF i < FirstIdx(s) THEN <<>>
                     ELSE SubSeq(s.log, i - FirstIdx(s) + 1, Len(s.log))
EntriesFromN(s, i, cnt) == IF i < FirstIdx(s) THEN <<>>
                           ELSE SubSeq(s.log, i - FirstIdx(s) + 1, Min(Len(s.log), i - FirstIdx(s) + cnt))

(* strict majority of the voters this node knows: count > (len(others)+1)/2 *)
IsMajority(s, cnt) == 2 * cnt > Cardinality(s.others) + 1

InitNode(n) ==
  [alive |-> TRUE, role |-> "F", term |-> 0, votedFor |-> Nil, votes |-> 0, leader |-> Nil,
   log |-> <<Entry(1, 0, NoopCmd, 1)>>, commit |-> 1, applied |-> 1, lci |-> -1,
   nextIdx |-> <<>>, matchIdx |-> <<>>, fresh |-> {},
   others |-> Voters0 \ {n}, ro |-> {}, conn |-> IF InitConnected THEN Voters0 \ {n} ELSE {},
   elDue |-> FALSE, hbDue |-> FALSE,
   queue |-> <<>>, wc |-> <<>>, wr |-> <<>>, rcnt |-> 0,
   noopIdx |-> -1, chgIdx |-> -1, hist |-> <<>>, ver |-> 0, ready |-> FALSE]

Init ==
  /\ node = [n \in Nodes |-> InitNode(n)]
  /\ chan = [i \in Nodes |-> [j \in Nodes |-> <<>>]]
  /\ alive = IF InitConnected THEN {{i, j} : i, j \in Voters0} \ {{i} : i \in Voters0} ELSE {}
  /\ up = IF InitConnected THEN {<<i, j>> \in Voters0 \X Voters0 : i # j} ELSE {}
  /\ cbs = <<>>
  /\ nexc = 0

-----------------------------------------------------------------------------
(* Step contexts.  x.s node record; x.out sequence of [to, msg]; x.ev sequence of fired        *)
(* callbacks [cid, res, err]; x.exc TRUE when an exception escaped (rest of the entry point    *)
(* is skipped).                                                                                *)
Ctx(s) == [s |-> s, out |-> <<>>, ev |-> <<>>, exc |-> FALSE]
WithS(x, s) == [x EXCEPT !.s = s]

(* transport.send(node, msg): appended only if this side has the peer registered *)
Snd(x, n, to, msg) == IF <<n, to>> \in up THEN [x EXCEPT !.out = Append(@, [to |-> to, msg |-> msg])] ELSE x

Fire(x, cb, res, err) ==
  IF cb.k = "cb" THEN [x EXCEPT !.ev = Append(@, [cid |-> cb.cid, res |-> res, err |-> err])] ELSE x

RECURSIVE SndAll(_, _, _, _)
SndAll(x, n, dests, msg) ==
  IF dests = {} THEN x
  ELSE LET m == CHOOSE d \in dests : TRUE IN SndAll(Snd(x, n, m, msg), n, dests \ {m}, msg)

(* __onLeaderChanged: every callback waiting for a forward reply gets LEADER_CHANGED, in id order *)
RECURSIVE FireAllWr(_, _)
FireAllWr(x, k) ==
  IF k > Len(x.s.wr) THEN WithS(x, [x.s EXCEPT !.wr = <<>>])
  ELSE FireAllWr(Fire(x, x.s.wr[k].cb, -1, LEADER_CHANGED), k + 1)
OnLeaderChanged(x) == FireAllWr(x, 1)

-----------------------------------------------------------------------------
(* __sendAppendEntries *)

(* __getEntries(from, None, maxSizeBytes): entries until the running size reaches the budget (inclusive) *)
RECURSIVE TakeBatch(_, _, _)
TakeBatch(es, k, total) ==
  IF k > Len(es) THEN Len(es)
  ELSE IF total + es[k].sz >= BatchBytes THEN k ELSE TakeBatch(es, k + 1, total + es[k].sz)

AEMsg(s, ents, pi, pt) ==
  [t |-> "ae", term |-> s.term, commit |-> s.commit, prevIdx |-> pi, prevTerm |-> pt, entries |-> ents]

(* the while-loop for one follower m; only the entries path (next > first index) is described here, *)
(* the snapshot path is SnapLoop in the compaction section *)
RECURSIVE AELoop(_, _, _, _, _)
AELoop(x, n, m, next, single) ==
  LET s == x.s IN
  IF ~(next <= LastIdx(s) \/ single) THEN x
  ELSE IF next > FirstIdx(s)
  THEN LET prevOk == next - 1 <= LastIdx(s)
           pi == IF prevOk THEN next - 1 ELSE -1
           pt == IF prevOk THEN s.log[next - 1 - FirstIdx(s) + 1].term ELSE -1
           all == IF next <= LastIdx(s) THEN EntriesFrom(s, next) ELSE <<>>
           ents == IF all = <<>> THEN <<>> ELSE SubSeq(all, 1, TakeBatch(all, 1, 0))
           nn == IF ents # <<>> THEN Last(ents).idx + 1 ELSE next
           s1 == IF ents # <<>> THEN [s EXCEPT !.nextIdx[m] = nn] ELSE s
           x1 == Snd(WithS(x, s1), n, m, AEMsg(s1, ents, pi, pt))
       IN AELoop(x1, n, m, nn, FALSE)
  ELSE x   \* snapshot path: not reachable without compaction

RECURSIVE SendAE(_, _, _)
SendAE(x, n, todo) ==
  IF todo = {} THEN x
  ELSE LET m == CHOOSE d \in todo : TRUE IN
       IF m \notin x.s.conn THEN SendAE(x, n, todo \ {m})
       ELSE SendAE(AELoop(x, n, m, x.s.nextIdx[m], TRUE), n, todo \ {m})

SendAppendEntries(x, n) == SendAE(WithS(x, [x.s EXCEPT !.hbDue = FALSE]), n, x.s.others \cup x.s.ro)

(* __onBecomeLeader *)
BecomeLeader(x, n) ==
  LET s == x.s
      peers == s.others \cup s.ro
      s1 == [s EXCEPT !.leader = n, !.role = "L",
                      !.nextIdx = [m \in (DOMAIN s.nextIdx) \cup peers |->
                                     IF m \in peers THEN LastIdx(s) + 1 ELSE s.nextIdx[m]],
                      !.matchIdx = [m \in (DOMAIN s.matchIdx) \cup peers |->
                                     IF m \in peers THEN 0 ELSE s.matchIdx[m]],
                      !.fresh = peers]
      s2 == [s1 EXCEPT !.log = Append(@, Entry(LastIdx(s) + 1, s.term, NoopCmd, 1)),
                       !.noopIdx = LastIdx(s) + 1]
      x1 == WithS(x, s2)
      x2 == IF UseBatch THEN x1 ELSE SendAppendEntries(x1, n)
  IN SendAppendEntries(x2, n)

-----------------------------------------------------------------------------
(* _onTick, block by block *)

ElectionStep(x, n) ==
  LET s == x.s IN
  IF s.role \in {"F", "C"} /\ s.elDue /\ (s.conn # {} \/ s.others = {})
  THEN LET s1 == [s EXCEPT !.elDue = FALSE, !.leader = Nil, !.role = "C", !.term = @ + 1,
                           !.votedFor = n, !.votes = 1]
           rv == [t |-> "rv", term |-> s1.term, lli |-> LastIdx(s), llt |-> LastTerm(s)]
           x1 == SndAll(WithS(x, s1), n, s1.others, rv)
           x2 == OnLeaderChanged(x1)
       IN IF IsMajority(x2.s, x2.s.votes) THEN BecomeLeader(x2, n) ELSE x2
  ELSE x

(* leader commit rule *)
RECURSIVE CommitScan(_, _, _)
CommitScan(s, ci, best) ==
  IF ci >= LastIdx(s) THEN best
  ELSE LET c == ci + 1
           cnt == 1 + Cardinality({m \in s.others : s.matchIdx[m] >= c})
       IN IF ~IsMajority(s, cnt) THEN best
          ELSE LET es == EntriesFromN(s, c, 1)
               IN IF es = <<>> \/ es[1].term # s.term THEN CommitScan(s, c, best)
                  ELSE CommitScan(s, c, c)

LeaderStep(x, n) ==
  LET s == x.s IN
  IF s.role # "L" THEN x
  ELSE LET nc == CommitScan(s, s.commit, s.commit)
           s1 == [s EXCEPT !.commit = nc, !.lci = nc]
           cnt == 1 + Cardinality(s1.others \cap s1.fresh)
           s2 == IF ~IsMajority(s1, cnt) THEN [s1 EXCEPT !.role = "F", !.leader = Nil, !.fresh = {}, !.hbDue = FALSE]
                 ELSE s1
       IN WithS(x, s2)

(* __applyLogEntries; commands of the free state machine append <<position, id, variant>> to hist *)
(* and return the new length.  A subscriber gets SUCCESS iff it subscribed in the entry's term.   *)
RECURSIVE FireSubs(_, _, _, _)
FireSubs(x, subs, e, res) ==
  IF subs = <<>> THEN x
  ELSE LET w == Head(subs)
       IN FireSubs(IF w.term = e.term THEN Fire(x, w.cb, res, SUCCESS) ELSE Fire(x, w.cb, -1, DISCARDED),
                   Tail(subs), e, res)

IsRegular(c) == c # NoopCmd

ApplyOne(x, e) ==
  LET s == x.s
      subs == SelectSeq(s.wc, LAMBDA w : w.idx = e.idx)
      rest == SelectSeq(s.wc, LAMBDA w : w.idx # e.idx)
      s1 == [s EXCEPT !.wc = rest]
      s2 == IF IsRegular(e.cmd) THEN [s1 EXCEPT !.hist = Append(@, <<s.applied + 1, e.cmd, 0>>)] ELSE s1
      res == IF IsRegular(e.cmd) THEN Len(s2.hist) ELSE -1
      x1 == FireSubs(WithS(x, s2), subs, e, res)
  IN WithS(x1, [x1.s EXCEPT !.applied = @ + 1])

RECURSIVE ApplyLoop(_, _)
ApplyLoop(x, es) == IF es = <<>> \/ x.exc THEN x ELSE ApplyLoop(ApplyOne(x, Head(es)), Tail(es))

ApplyStep(x) ==
  LET s == x.s IN
  IF s.commit > s.applied
  THEN ApplyLoop(x, EntriesFromN(s, s.applied + 1, s.commit - s.applied))
  ELSE x

(* commandsWaitingCommit is a dict idx -> list; the projection orders it by idx, then insertion *)
WcInsert(wc, ins) ==
  SelectSeq(wc, LAMBDA w : w.idx <= ins.idx) \o <<ins>> \o SelectSeq(wc, LAMBDA w : w.idx > ins.idx)

(* _checkCommandsToApply *)
CmdrOk(rid, idx, term) == [t |-> "cmdr", rid |-> rid, idx |-> idx, term |-> term, err |-> 0]
CmdrErr(rid, err) == [t |-> "cmdr", rid |-> rid, idx |-> 0, term |-> 0, err |-> err]

(* __callErrCallback *)
ErrCallback(x, n, cb, err) ==
  IF cb.k = "fwd" THEN Snd(x, n, cb.n, CmdrErr(cb.rid, err))
  ELSE Fire(x, cb, -1, err)

RECURSIVE QueueStep(_, _)
QueueStep(x, n) ==
  LET s == x.s IN
  IF s.queue = <<>> \/ (s.leader = Nil /\ WaitLeader) THEN x
  ELSE LET q == Head(s.queue)
           s0 == [s EXCEPT !.queue = Tail(@)]
       IN IF s.role = "L"
          THEN LET idx == LastIdx(s) + 1
                   s1 == [s0 EXCEPT !.log = Append(@, Entry(idx, s.term, q.cmd, q.sz))]
                   x1 == IF q.cb.k = "fwd" THEN Snd(WithS(x, s1), n, q.cb.n, CmdrOk(q.cb.rid, idx, s.term))
                         ELSE IF q.cb.k = "cb"
                              THEN WithS(x, [s1 EXCEPT !.wc = WcInsert(@, [idx |-> idx, term |-> s.term, cb |-> q.cb])])
                              ELSE WithS(x, s1)
                   x2 == IF UseBatch THEN x1 ELSE SendAppendEntries(x1, n)
               IN QueueStep(x2, n)
          ELSE IF s.leader # Nil
          THEN IF q.cb.k = "fwd"
               THEN QueueStep(Snd(WithS(x, s0), n, q.cb.n, CmdrErr(q.cb.rid, NOT_LEADER)), n)
               ELSE IF q.cb.k = "cb"
                    THEN LET s1 == [s0 EXCEPT !.rcnt = @ + 1,
                                              !.wr = Append(@, [rid |-> s.rcnt + 1, cb |-> q.cb])]
                         IN QueueStep(Snd(WithS(x, s1), n, s.leader,
                                          [t |-> "cmd", cmd |-> q.cmd, sz |-> q.sz, rid |-> s.rcnt + 1]), n)
                    ELSE QueueStep(Snd(WithS(x, s0), n, s.leader,
                                       [t |-> "cmd", cmd |-> q.cmd, sz |-> q.sz, rid |-> 0]), n)
          ELSE QueueStep(ErrCallback(WithS(x, s0), n, q.cb, MISSING_LEADER), n)

TickCtx(n, adv) ==
  LET s0 == node[n]
      sA == [s0 EXCEPT !.elDue = @ \/ adv = "j",
                       !.hbDue = s0.role = "L" /\ (@ \/ adv # "z"),
                       !.fresh = IF adv \in {"m", "j"} THEN {} ELSE @]
      x1 == ElectionStep(Ctx(sA), n)
      x2 == LeaderStep(x1, n)
      x3 == ApplyStep(x2)
      needSend == (~UseBatch) /\ x2.s.commit > x2.s.applied
      x4 == IF x3.exc THEN x3
            ELSE IF x3.s.role = "L" /\ (x3.s.hbDue \/ needSend) THEN SendAppendEntries(x3, n) ELSE x3
      x5 == IF x4.exc THEN x4
            ELSE IF ~x4.s.ready /\ x4.s.applied = x4.s.lci THEN WithS(x4, [x4.s EXCEPT !.ready = TRUE]) ELSE x4
      x6 == IF x5.exc THEN x5 ELSE QueueStep(x5, n)
  IN x6

-----------------------------------------------------------------------------
(* __onMessageReceived *)

NNI(next, reset, success) == [t |-> "nni", next |-> next, reset |-> reset, success |-> success]

OnRequestVote(x, n, from, m) ==
  LET s0 == x.s
      s1 == IF m.term > s0.term
            THEN [s0 EXCEPT !.term = m.term, !.votedFor = Nil, !.role = "F", !.leader = Nil,
                            !.fresh = {}, !.hbDue = FALSE]
            ELSE s0
  IN IF /\ s1.role \in {"F", "C"}
        /\ m.term >= s1.term
        /\ ~(m.llt < LastTerm(s1))
        /\ ~(m.llt = LastTerm(s1) /\ m.lli < LastIdx(s1))
        /\ s1.votedFor = Nil
     THEN Snd(WithS(x, [s1 EXCEPT !.votedFor = from, !.elDue = FALSE]), n, from, [t |-> "vote", term |-> m.term])
     ELSE WithS(x, s1)

OnAppendEntries(x, n, from, m) ==
  LET s0 == x.s IN
  IF m.term < s0.term THEN x
  ELSE
    LET xa == IF s0.leader # from THEN OnLeaderChanged(x) ELSE x
        sa == xa.s
        s1 == [sa EXCEPT !.elDue = FALSE, !.leader = from, !.term = m.term,
                         !.votedFor = IF m.term > s0.term THEN Nil ELSE @,
                         !.role = "F", !.lci = m.commit, !.fresh = {}, !.hbDue = FALSE]
        prevs == IF m.prevIdx = -1 THEN <<>> ELSE EntriesFrom(s1, m.prevIdx)
    IN IF prevs = <<>>
       THEN Snd(WithS(xa, s1), n, from, NNI(LastIdx(s1) + 1, TRUE, FALSE))
       ELSE IF prevs[1].term # m.prevTerm
       THEN Snd(WithS(xa, s1), n, from, NNI(m.prevIdx, TRUE, FALSE))
       ELSE LET existing == Tail(prevs)
                \* entries we already hold with the same term are kept; truncate from the first conflict only
                nm == CHOOSE k \in 0..Min(Len(existing), Len(m.entries)) :
                        /\ \A q \in 1..k : existing[q].term = m.entries[q].term
                        /\ (k < Min(Len(existing), Len(m.entries)) => existing[k + 1].term # m.entries[k + 1].term)
                toAdd == SubSeq(m.entries, nm + 1, Len(m.entries))
                kept == IF toAdd # <<>> /\ nm < Len(existing)
                        THEN SubSeq(s1.log, 1, m.prevIdx - FirstIdx(s1) + 1 + nm) ELSE s1.log
                s2 == [s1 EXCEPT !.log = kept \o toAdd]
                nxt == IF m.entries # <<>> THEN Last(m.entries).idx + 1 ELSE m.prevIdx + 1
                \* only the entries up to the last one of this message are known to match the leader's log
                nc == Min(m.commit, nxt - 1)
                s3 == IF nc > s2.commit THEN [s2 EXCEPT !.commit = nc] ELSE s2
            IN Snd(WithS(xa, s3), n, from, NNI(nxt, FALSE, TRUE))

OnCmd(x, n, from, m) ==
  LET s == x.s
      cb == IF m.rid # 0 THEN [k |-> "fwd", n |-> from, rid |-> m.rid] ELSE [k |-> "none"]
  IN IF Len(s.queue) > QueueSize
     THEN ErrCallback(x, n, cb, QUEUE_FULL)
     ELSE WithS(x, [s EXCEPT !.queue = Append(@, [cmd |-> m.cmd, sz |-> m.sz, cb |-> cb])])

OnCmdResponse(x, n, from, m) ==
  LET s == x.s
      hit == SelectSeq(s.wr, LAMBDA w : w.rid = m.rid)
      s1 == [s EXCEPT !.wr = SelectSeq(@, LAMBDA w : w.rid # m.rid)]
  IN IF hit = <<>> THEN x
     ELSE IF m.err # 0 THEN Fire(WithS(x, s1), hit[1].cb, -1, m.err)
     ELSE IF ~(m.idx > s.applied) THEN [WithS(x, s1) EXCEPT !.exc = TRUE]     \* assert idx > lastApplied
     ELSE WithS(x, [s1 EXCEPT !.wc = WcInsert(@, [idx |-> m.idx, term |-> m.term, cb |-> hit[1].cb])])

OnVote(x, n, from, m) ==
  LET s == x.s IN
  IF s.role = "C" /\ m.term = s.term
  THEN LET x1 == WithS(x, [s EXCEPT !.votes = @ + 1])
       IN IF IsMajority(x1.s, x1.s.votes) THEN BecomeLeader(x1, n) ELSE x1
  ELSE x

OnNextNodeIdx(x, n, from, m) ==
  LET s == x.s IN
  IF s.role # "L" THEN x
  ELSE LET s1 == IF m.reset THEN [s EXCEPT !.nextIdx = [k \in DOMAIN @ \cup {from} |-> IF k = from THEN m.next ELSE @[k]]] ELSE s
           s2 == IF m.success /\ s1.matchIdx[from] < m.next - 1
                 THEN [s1 EXCEPT !.matchIdx[from] = m.next - 1,
                                 !.nextIdx = [k \in DOMAIN @ \cup {from} |-> IF k = from THEN m.next ELSE @[k]]]
                 ELSE s1
       IN WithS(x, [s2 EXCEPT !.fresh = @ \cup {from}])

MsgCtx(n, from, m) ==
  LET x == Ctx(node[n]) IN
  CASE m.t = "rv"   -> IF n \in Voters0 THEN OnRequestVote(x, n, from, m) ELSE x
    [] m.t = "ae"   -> OnAppendEntries(x, n, from, m)
    [] m.t = "vote" -> OnVote(x, n, from, m)
    [] m.t = "nni"  -> OnNextNodeIdx(x, n, from, m)
    [] m.t = "cmd"  -> OnCmd(x, n, from, m)
    [] m.t = "cmdr" -> OnCmdResponse(x, n, from, m)
    [] OTHER        -> x

-----------------------------------------------------------------------------
(* putting a step context into the global state *)
MsgsTo(out, j) ==
  LET sel == SelectSeq(out, LAMBDA o : o.to = j) IN [k \in 1..Len(sel) |-> sel[k].msg]

Flush(ch, al, n, out) ==
  [i \in Nodes |-> [j \in Nodes |->
      IF i = n /\ {i, j} \in al THEN ch[i][j] \o MsgsTo(out, j) ELSE ch[i][j]]]

RECURSIVE ApplyEv(_, _)
ApplyEv(c, ev) ==
  IF ev = <<>> THEN c
  ELSE LET e == Head(ev)
           cur == IF e.cid \in DOMAIN c THEN c[e.cid] ELSE <<>>
           c1 == [k \in DOMAIN c \cup {e.cid} |-> IF k = e.cid THEN Append(cur, <<e.res, e.err>>) ELSE c[k]]
       IN ApplyEv(c1, Tail(ev))

Commit(n, x, ch, al) ==
  /\ node' = [node EXCEPT ![n] = x.s]
  /\ chan' = Flush(ch, al, n, x.out)
  /\ cbs' = ApplyEv(cbs, x.ev)
  /\ nexc' = IF x.exc THEN nexc + 1 ELSE nexc

-----------------------------------------------------------------------------
(* actions *)
Advs == {"z", "h", "m", "j"}

Tick(n, adv) ==
  /\ node[n].alive
  /\ Commit(n, TickCtx(n, adv), chan, alive)
  /\ UNCHANGED <<alive, up>>

(* first message on a new incoming connection: the acceptor binds it to the member *)
Hello(i, j) ==
  IF i \in node[j].others
  THEN /\ up' = up \cup {<<j, i>>}
       /\ node' = [node EXCEPT ![j].conn = @ \cup {i}]
       /\ chan' = [chan EXCEPT ![i][j] = Tail(@)]
       /\ UNCHANGED <<alive, cbs, nexc>>
  ELSE \* unknown address: the acceptor closes the connection
       /\ up' = up \ {<<j, i>>}
       /\ alive' = alive \ {{i, j}}
       /\ chan' = [chan EXCEPT ![i][j] = <<>>, ![j][i] = <<>>]
       /\ UNCHANGED <<node, cbs, nexc>>

Deliver(i, j) ==
  /\ chan[i][j] # <<>>
  /\ node[j].alive
  /\ LET m == Head(chan[i][j]) IN
     IF m.t = "hello" THEN Hello(i, j)
     ELSE /\ Commit(j, MsgCtx(j, i, m), [chan EXCEPT ![i][j] = Tail(@)], alive)
          /\ UNCHANGED <<alive, up>>

CbOf(c, wantCb) == IF wantCb THEN [k |-> "cb", cid |-> c] ELSE [k |-> "none"]

(* a replicated call: _applyCommand puts (command, callback) into the queue, or QUEUE_FULL *)
SubmitOp(n, c, z, wantCb) ==
  /\ node[n].alive
  /\ LET s == node[n]
         cb == CbOf(c, wantCb)
         x == IF Len(s.queue) > QueueSize THEN Fire(Ctx(s), cb, -1, QUEUE_FULL)
              ELSE Ctx([s EXCEPT !.queue = Append(@, [cmd |-> c, sz |-> z, cb |-> cb])])
     IN Commit(n, x, chan, alive)
  /\ UNCHANGED <<alive, up>>

Break(i, j) ==
  /\ {i, j} \in alive
  /\ alive' = alive \ {{i, j}}
  /\ chan' = [chan EXCEPT ![i][j] = <<>>, ![j][i] = <<>>]
  /\ UNCHANGED <<node, up, cbs, nexc>>

Notice(i, j) ==
  /\ <<i, j>> \in up /\ {i, j} \notin alive /\ node[i].alive
  /\ up' = up \ {<<i, j>>}
  /\ node' = [node EXCEPT ![i].conn = @ \ {j}]
  /\ UNCHANGED <<chan, alive, cbs, nexc>>

(* i dials j: i's side is connected at once, j's side when the hello arrives *)
Connect(i, j) ==
  /\ i # j /\ node[i].alive /\ node[j].alive
  /\ {i, j} \notin alive /\ <<i, j>> \notin up
  /\ j \in node[i].others
  /\ alive' = alive \cup {{i, j}}
  /\ up' = up \cup {<<i, j>>}
  /\ chan' = [chan EXCEPT ![i][j] = <<[t |-> "hello"]>>, ![j][i] = <<>>]
  /\ node' = [node EXCEPT ![i].conn = @ \cup {j}]
  /\ UNCHANGED <<cbs, nexc>>

=============================================================================

------------------------------ MODULE CoreLive ------------------------------
(***************************************************************************)
(* Liveness of Core in the absence of faults (C05, the temporal half):     *)
(* if every running node keeps ticking in time, every message is           *)
(* eventually delivered and the election timer of a node that knows no     *)
(* leader eventually fires, then the cluster ends up with one leader that  *)
(* everybody follows, and every command that was accepted is eventually    *)
(* part of every replica's state.                                          *)
(* Checked under SPECIFICATION LiveSpec (weak fairness per node / per      *)
(* connection).  The state constraint of CoreMC cuts the graph at          *)
(* MaxChan / MaxLog / MaxTerm: behaviours that run into it are not         *)
(* continued, so the result speaks about the behaviours inside the bound   *)
(* (one elector, so that the bound on terms is never the reason for a      *)
(* missing leader).                                                        *)
(***************************************************************************)
EXTENDS CoreMC

TickOf(n, adv) ==
  /\ node[n].alive
  /\ Tick(n, adv, DefaultCut, [sid |-> ToString(<<node[n].applied, node[n].term, Len(node[n].hist)>>), size |-> SnapSize], <<>>, TRUE)
  /\ UNCHANGED <<unused, faults>> /\ lastTick' = n /\ GNext
DeliverOf(i, j) == Deliver(i, j) /\ UNCHANGED <<unused, faults>> /\ lastTick' = Nil /\ GNext

Fair ==
  /\ \A n \in Nodes : WF_mcvars(TickOf(n, "h"))
  /\ \A i, j \in Nodes : WF_mcvars(DeliverOf(i, j))
  /\ \A n \in Electors : WF_mcvars(node[n].role # "L" /\ node[n].leader = Nil /\ node[n].term < MaxTerm /\ TickOf(n, "j"))
LiveSpec == MCSpec /\ Fair

OneLeader == \E l \in Nodes : /\ node[l].alive /\ node[l].role = "L"
                              /\ \A n \in Nodes : node[n].alive => node[n].leader = l
EventuallyOneLeader == <>[]OneLeader
Has(n, c) == \E k \in 1..Len(node[n].hist) : node[n].hist[k][2] = c
(* a command that was accepted (left the set of unused ids) and whose callback did not report a failure ends up in every replica *)
Failed(c) == c \in DOMAIN cbs /\ \E k \in 1..Len(cbs[c]) : cbs[c][k][2] # 0
AcceptedIsApplied == \A c \in Cmds : (c \notin unused) ~> (Failed(c) \/ \A n \in Nodes : node[n].alive => Has(n, c))
=============================================================================

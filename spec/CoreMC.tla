------------------------------- MODULE CoreMC -------------------------------
(***************************************************************************)
(* Model-checking wrapper for Core: bounded next-state relation with       *)
(* scenario constants that confine TLC to one mechanism at a time          *)
(* (DESIGN 4.1), ghosts of Props updated in lock-step, and the properties  *)
(* as invariants / action properties.                                      *)
(***************************************************************************)
EXTENDS Core, Props, IOUtils

CONSTANTS
  Cmds,        \* command ids that may be submitted (each once)
  CmdSize,     \* byte size of a pickled command
  MaxTerm, MaxLog, MaxChan,
  MaxFaults,   \* budget of Break actions
  Electors,    \* nodes whose election timer may fire
  SubmitAt,    \* nodes that accept submissions
  Advs0,       \* clock scales explored by Tick
  SnapSize,    \* byte size of a serialized snapshot
  Compactors,  \* nodes on which forceLogCompaction() may be called
  FaultPairs,  \* connections {i,j} that may break / be (re)established
  MembCids,    \* callback ids available for membership requests (each used once)
  MembTargets, \* nodes that may be added / removed
  CrashNodes,  \* journaled nodes that may be killed between two steps and restarted (each kill uses the fault budget)
  Spares,      \* nodes that are not running initially and may be started (with the member list of a running voter)
  MaxDepth

VARIABLES unused, faults
mcvars == <<vars, gvars, unused, faults>>

MCInit == Init /\ GInit /\ unused = Cmds \cup MembCids /\ faults = 0

\* (distinct bound-variable names per disjunct: TLC's JSON counterexamples carry the bindings, from which
\*  the harness reconstructs the schedule)
TickEnv ==
     \E n \in Nodes, adv \in Advs0 :
        /\ node[n].alive
        /\ (adv = "j") => (n \in Electors /\ node[n].term < MaxTerm /\ node[n].role # "L")
        /\ (adv = "m") => node[n].role = "L"
        /\ Tick(n, adv, DefaultCut, [sid |-> ToString(<<node[n].applied, node[n].term, Len(node[n].hist)>>), size |-> SnapSize], <<>>, TRUE)
        /\ UNCHANGED <<unused, faults>> /\ lastTick' = n

OtherEnv ==
  \/ \E di, dj \in Nodes : Deliver(di, dj) /\ UNCHANGED <<unused, faults>>
  \/ \E sn \in SubmitAt, sc \in unused \cap Cmds :
        SubmitOp(sn, sc, CmdSize, TRUE) /\ unused' = unused \ {sc} /\ UNCHANGED faults
  \/ \E mn \in SubmitAt, mc \in unused \cap MembCids, mv \in MembTargets, mk \in {"add", "rem"} :
        /\ Membership
        /\ SubmitCmd(mn, mc, IF mk = "add" THEN AddCmd(mv) ELSE RemCmd(mv), CmdSize, TRUE)
        /\ unused' = unused \ {mc} /\ UNCHANGED faults
  \/ \E st \in Spares, sv \in Nodes :
        /\ node[sv].alive /\ sv \notin Observers
        /\ StartFresh(st, node[sv].others \cup {sv, st}) /\ UNCHANGED <<unused, faults>>
  \/ \E bi, bj \in Nodes : bi # bj /\ {bi, bj} \in FaultPairs /\ faults < MaxFaults /\ Break(bi, bj) /\ faults' = faults + 1 /\ UNCHANGED unused
  \/ \E ni, nj \in Nodes : Notice(ni, nj) /\ UNCHANGED <<unused, faults>>
  \/ \E ci, cj \in Nodes : {ci, cj} \in FaultPairs /\ Connect(ci, cj) /\ UNCHANGED <<unused, faults>>
  \/ \E fn \in Compactors : node[fn].alive /\ ~node[fn].force /\ Compact(fn) /\ UNCHANGED <<unused, faults>>
  \/ \E kn \in CrashNodes : faults < MaxFaults /\ Crash(kn) /\ faults' = faults + 1 /\ UNCHANGED unused
  \/ \E rn \in CrashNodes : Restart(rn) /\ UNCHANGED <<unused, faults>>
  \* the forked dump writer finishes, or is killed (fault budget)
  \/ \E fc \in Nodes : node[fc].alive /\ Fork /\ DumpFile
        /\ ChildDone(fc, [sid |-> ToString(<<node[fc].child.content.last.idx, node[fc].term, Len(node[fc].child.content.hist), "f">>), size |-> SnapSize])
        /\ UNCHANGED <<unused, faults>>
  \/ \E fk \in Nodes : node[fk].alive /\ Fork /\ DumpFile /\ faults < MaxFaults /\ ChildKilled(fk) /\ faults' = faults + 1 /\ UNCHANGED unused

Env == TickEnv \/ (OtherEnv /\ lastTick' = Nil)
MCNext == Env /\ GNext
MCSpec == MCInit /\ [][MCNext]_mcvars

(* a wall-clock budget (seconds, environment variable MC_SECS) turns the search into a time-bounded breadth-first one that *)
(* still ends with TLC's complete statistics; the engine reports such a run as time-bounded, never as exhaustive           *)
MCSecs == IF "MC_SECS" \in DOMAIN IOEnv THEN atoi(IOEnv.MC_SECS) ELSE 0
(* ... and a depth bound (MC_DEPTH) makes the explored part of the graph, and with it the reported numbers, the same on   *)
(* every machine (the quick tier sets it so that the time budget is normally not reached)                                  *)
MCDepth == IF "MC_DEPTH" \in DOMAIN IOEnv THEN atoi(IOEnv.MC_DEPTH) ELSE MaxDepth
Bound ==
  /\ (MCSecs = 0 \/ TLCGet("duration") < MCSecs)
  /\ \A n \in Nodes : node[n].alive => (node[n].term <= MaxTerm /\ Len(node[n].log) <= MaxLog)
  /\ \A i, j \in Nodes : Len(chan[i][j]) <= MaxChan
  /\ TLCGet("level") <= MaxDepth /\ TLCGet("level") <= MCDepth

Sym == Permutations(Nodes)

StateOK == StateViolations = {}
StepOK == [][StepViolations = {}]_mcvars

\* individual formulas, one INVARIANT / PROPERTY line per property formula
P_MonotoneIndices == [][MonotoneIndices]_mcvars
P_HistAppendOnly == [][HistAppendOnly]_mcvars
P_VoteSurvives == [][VoteSurvives]_mcvars
P_VoteDurableAtDeath == [][VoteDurableAtDeath]_mcvars
P_AckedDurable == [][AckedDurable]_mcvars
P_CommitIsQuorumBacked == [][CommitIsQuorumBacked]_mcvars
P_LeaderCompleteness == [][LeaderCompleteness]_mcvars
P_TermMonotone == [][TermMonotone]_mcvars
P_ApplyProgress == [][ApplyProgress]_mcvars
=============================================================================

------------------------------- MODULE CoreMC -------------------------------
(***************************************************************************)
(* Model-checking wrapper for Core: bounded next-state relation with       *)
(* scenario constants that confine TLC to one mechanism at a time          *)
(* (DESIGN 4.1), ghosts of Props updated in lock-step, and the properties  *)
(* as invariants / action properties.                                      *)
(***************************************************************************)
EXTENDS Core, Props

CONSTANTS
  Cmds,        \* command ids that may be submitted (each once)
  CmdSize,     \* byte size of a pickled command
  MaxTerm, MaxLog, MaxChan,
  MaxFaults,   \* budget of Break actions
  Electors,    \* nodes whose election timer may fire
  SubmitAt,    \* nodes that accept submissions
  Advs0,       \* clock scales explored by Tick
  MaxDepth

VARIABLES unused, faults
mcvars == <<vars, gvars, unused, faults>>

MCInit == Init /\ GInit /\ unused = Cmds /\ faults = 0

\* (distinct bound-variable names per disjunct: TLC's JSON counterexamples carry the bindings, from which
\*  the harness reconstructs the schedule)
Env ==
  \/ \E n \in Nodes, adv \in Advs0 :
        /\ (adv = "j") => (n \in Electors /\ node[n].term < MaxTerm /\ node[n].role # "L")
        /\ (adv = "m") => node[n].role = "L"
        /\ Tick(n, adv) /\ UNCHANGED <<unused, faults>>
  \/ \E di, dj \in Nodes : Deliver(di, dj) /\ UNCHANGED <<unused, faults>>
  \/ \E sn \in SubmitAt, sc \in unused :
        SubmitOp(sn, sc, CmdSize, TRUE) /\ unused' = unused \ {sc} /\ UNCHANGED faults
  \/ \E bi, bj \in Nodes : bi # bj /\ faults < MaxFaults /\ Break(bi, bj) /\ faults' = faults + 1 /\ UNCHANGED unused
  \/ \E ni, nj \in Nodes : Notice(ni, nj) /\ UNCHANGED <<unused, faults>>
  \/ \E ci, cj \in Nodes : Connect(ci, cj) /\ UNCHANGED <<unused, faults>>

MCNext == Env /\ GNext
MCSpec == MCInit /\ [][MCNext]_mcvars

Bound ==
  /\ \A n \in Nodes : node[n].term <= MaxTerm /\ Len(node[n].log) <= MaxLog
  /\ \A i, j \in Nodes : Len(chan[i][j]) <= MaxChan
  /\ TLCGet("level") <= MaxDepth

Sym == Permutations(Nodes)

StateOK == StateViolations = {}
StepOK == [][StepViolations = {}]_mcvars

\* individual formulas, one INVARIANT / PROPERTY line per property formula
P_MonotoneIndices == [][MonotoneIndices]_mcvars
P_HistAppendOnly == [][HistAppendOnly]_mcvars
P_CommitIsQuorumBacked == [][CommitIsQuorumBacked]_mcvars
P_LeaderCompleteness == [][LeaderCompleteness]_mcvars
P_TermMonotone == [][TermMonotone]_mcvars
=============================================================================

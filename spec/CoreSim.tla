------------------------------- MODULE CoreSim -------------------------------
(***************************************************************************)
(* spec -> code: the bounded next-state relation of CoreMC with a history  *)
(* variable recording the environment's choices.  Run with -simulate; the  *)
(* action sequence of every generated behaviour is printed as JSON and     *)
(* re-executed on the real objects by the harness.                         *)
(***************************************************************************)
EXTENDS CoreMC, Json

CONSTANT SimDepth
VARIABLE acts
simvars == <<mcvars, acts>>

SimInit == MCInit /\ acts = <<>>

SimEnv ==
  \/ \E n \in Nodes, adv \in Advs0 :
        /\ node[n].alive
        /\ (adv = "j") => (n \in Electors /\ node[n].term < MaxTerm)
        /\ Tick(n, adv, DefaultCut, [sid |-> ToString(<<node[n].applied, node[n].term, Len(node[n].hist)>>), size |-> SnapSize], <<>>, TRUE)
        /\ UNCHANGED <<unused, faults>>
        /\ acts' = Append(acts, <<"Tick", n, adv>>) /\ lastTick' = n
  \/ \E i, j \in Nodes : Deliver(i, j) /\ UNCHANGED <<unused, faults>> /\ lastTick' = Nil /\ acts' = Append(acts, <<"Deliver", i, j>>)
  \/ \E n \in SubmitAt, c \in unused :
        /\ SubmitOp(n, c, CmdSize, TRUE) /\ unused' = unused \ {c} /\ UNCHANGED faults
        /\ lastTick' = Nil /\ acts' = Append(acts, <<"Submit", n, c, [kind |-> "op", size |-> CmdSize]>>)
  \/ \E i, j \in Nodes : /\ i # j /\ {i, j} \in FaultPairs /\ faults < MaxFaults /\ Break(i, j) /\ faults' = faults + 1 /\ UNCHANGED unused
                         /\ lastTick' = Nil /\ acts' = Append(acts, <<"Break", i, j>>)
  \/ \E i, j \in Nodes : Notice(i, j) /\ UNCHANGED <<unused, faults>> /\ lastTick' = Nil /\ acts' = Append(acts, <<"Notice", i, j>>)
  \/ \E i, j \in Nodes : {i, j} \in FaultPairs /\ Connect(i, j) /\ UNCHANGED <<unused, faults>> /\ lastTick' = Nil /\ acts' = Append(acts, <<"Connect", i, j>>)
  \/ \E fn \in Compactors : ~node[fn].force /\ Compact(fn) /\ UNCHANGED <<unused, faults>> /\ lastTick' = Nil /\ acts' = Append(acts, <<"Compact", fn>>)

SimNext == SimEnv /\ GNext
SimSpec == SimInit /\ [][SimNext]_simvars

EmitAtEnd == (Len(acts) < SimDepth) \/ PrintT(<<"ACTS", ToJson(acts)>>)
=============================================================================

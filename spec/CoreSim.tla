------------------------------- MODULE CoreSim -------------------------------
(***************************************************************************)
(* spec -> code: the bounded next-state relation of CoreMC with a history  *)
(* variable recording the environment's choices.  Run with -simulate; the  *)
(* action sequence of every generated behaviour is printed as JSON and     *)
(* re-executed on the real objects by the harness.                         *)
(***************************************************************************)
EXTENDS CoreMC, Json, SequencesExt

CONSTANT SimDepth
VARIABLE acts
simvars == <<mcvars, acts>>

SimInit == MCInit /\ acts = <<>>

SimEnv ==
  \/ \E n \in Nodes, adv \in Advs0 :
        /\ node[n].alive
        /\ (adv = "j") => (n \in Electors /\ node[n].term < MaxTerm)
        /\ Tick(n, adv, DefaultCut, [sid |-> ToString(<<node[n].applied, node[n].term, Len(node[n].hist)>>), size |-> SnapSize], <<>>, TRUE)
        /\ UNCHANGED <<unused, faults>>
        /\ acts' = Append(acts, <<"Tick", n, adv>>) /\ lastTick' = n
  \/ \E i, j \in Nodes : Deliver(i, j) /\ UNCHANGED <<unused, faults>> /\ lastTick' = Nil /\ acts' = Append(acts, <<"Deliver", i, j>>)
  \/ \E n \in SubmitAt, c \in unused \cap Cmds :
        /\ node[n].alive
        /\ SubmitOp(n, c, CmdSize, TRUE) /\ unused' = unused \ {c} /\ UNCHANGED faults
        /\ lastTick' = Nil /\ acts' = Append(acts, <<"Submit", n, c, [kind |-> "op", size |-> CmdSize]>>)
  \/ \E i, j \in Nodes : /\ i # j /\ {i, j} \in FaultPairs /\ faults < MaxFaults /\ Break(i, j) /\ faults' = faults + 1 /\ UNCHANGED unused
                         /\ lastTick' = Nil /\ acts' = Append(acts, <<"Break", i, j>>)
  \/ \E i, j \in Nodes : Notice(i, j) /\ UNCHANGED <<unused, faults>> /\ lastTick' = Nil /\ acts' = Append(acts, <<"Notice", i, j>>)
  \/ \E i, j \in Nodes : {i, j} \in FaultPairs /\ Connect(i, j) /\ UNCHANGED <<unused, faults>> /\ lastTick' = Nil /\ acts' = Append(acts, <<"Connect", i, j>>)
  \/ \E fn \in Compactors : node[fn].alive /\ ~node[fn].force /\ Compact(fn) /\ UNCHANGED <<unused, faults>> /\ lastTick' = Nil /\ acts' = Append(acts, <<"Compact", fn>>)
  \* membership requests, spare nodes, kills and restarts of journaled nodes, the forked dump writer
  \/ \E mn \in SubmitAt, mc \in unused \cap MembCids, mv \in MembTargets, mk \in {"add", "rem"} :
        /\ Membership /\ node[mn].alive
        /\ SubmitCmd(mn, mc, IF mk = "add" THEN AddCmd(mv) ELSE RemCmd(mv), CmdSize, TRUE)
        /\ unused' = unused \ {mc} /\ UNCHANGED faults
        /\ lastTick' = Nil /\ acts' = Append(acts, <<"Submit", mn, mc, [kind |-> mk, x |-> mv]>>)
  \/ \E st \in Spares, sv \in Nodes :
        /\ node[sv].alive /\ sv \notin Observers
        /\ StartFresh(st, node[sv].others \cup {sv, st}) /\ UNCHANGED <<unused, faults>>
        /\ lastTick' = Nil /\ acts' = Append(acts, <<"Start", st, SetToSeq(node[sv].others \cup {sv, st})>>)
  \/ \E kn \in CrashNodes : faults < MaxFaults /\ Crash(kn) /\ faults' = faults + 1 /\ UNCHANGED unused
                              /\ lastTick' = Nil /\ acts' = Append(acts, <<"Crash", kn>>)
  \/ \E rn \in CrashNodes : Restart(rn) /\ UNCHANGED <<unused, faults>> /\ lastTick' = Nil /\ acts' = Append(acts, <<"Restart", rn>>)
  \/ \E fc \in Nodes : node[fc].alive /\ Fork /\ DumpFile
        /\ ChildDone(fc, [sid |-> ToString(<<node[fc].child.content.last.idx, node[fc].term, Len(node[fc].child.content.hist), "f">>), size |-> SnapSize])
        /\ UNCHANGED <<unused, faults>> /\ lastTick' = Nil /\ acts' = Append(acts, <<"ChildDone", fc>>)
  \/ \E fk \in Nodes : node[fk].alive /\ Fork /\ DumpFile /\ faults < MaxFaults /\ ChildKilled(fk) /\ faults' = faults + 1 /\ UNCHANGED unused
                         /\ lastTick' = Nil /\ acts' = Append(acts, <<"ChildKill", fk, 1>>)

SimNext == SimEnv /\ GNext
SimSpec == SimInit /\ [][SimNext]_simvars

EmitAtEnd == (Len(acts) < SimDepth) \/ PrintT(<<"ACTS", ToJson(acts)>>)
=============================================================================

------------------------------ MODULE CoreTrace ------------------------------
(***************************************************************************)
(* Trace validation: implementation traces recorded by harness/simcluster  *)
(* (real SyncObj objects under the scheduler) against Core.                *)
(*                                                                         *)
(* A batch file holds many traces; each becomes one initial state (tid).   *)
(* Per step the recorded action is evaluated with Core's own step          *)
(* functions from the current state, and the computed successor is         *)
(* compared field by field with the state projected from the real objects. *)
(*   - mismatch  => "DRIFT" line (spec and code disagree; not a verdict)   *)
(*   - the next state is ALWAYS the recorded one (monitor mode), so the    *)
(*     property formulas of Props are evaluated by TLC on every state and  *)
(*     every step the implementation actually took; a failing formula      *)
(*     prints a "VIOL" line naming it.                                     *)
(* Acceptance: a "DONE" line per trace (all lines consumed).               *)
(***************************************************************************)
EXTENDS Core, Props, Json, IOUtils, TLCExt

Batch == JsonDeserialize(IOEnv.TRACE_FILE)
Traces == Batch.traces

VARIABLES tid, l, ndrift, nviol
tvars == <<vars, gvars, tid, l, ndrift, nviol>>

Has(r, f) == f \in DOMAIN r
ToSet(q) == {q[k] : k \in 1..Len(q)}
PairSet(q) == {<<q[k][1], q[k][2]>> : k \in 1..Len(q)}
SetSet(q) == {{q[k][1], q[k][2]} : k \in 1..Len(q)}

SnapContent(r) == [size |-> r.size, last |-> r.last, prev |-> r.prev, hist |-> r.hist, cluster |-> ToSet(r.cluster), ver |-> r.ver,
                   ahead |-> r.ahead]

(* projection record (JSON) -> node record of Core: exactly Core's fields *)
NormNode(p) ==
  IF ~p.alive THEN (IF "disk" \in DOMAIN p
                    THEN [alive |-> FALSE, disk |-> [jlog |-> p.disk.jlog, torn |-> p.disk.torn, meta |-> p.disk.meta, dump |-> p.disk.dump,
                                                  term |-> p.disk.term, votedFor |-> p.disk.votedFor], gen |-> p.gen]
                    ELSE [alive |-> FALSE, gen |-> p.gen])
  ELSE [alive |-> TRUE, role |-> p.role, term |-> p.term, votedFor |-> p.votedFor, votes |-> p.votes,
        leader |-> p.leader, log |-> p.log, commit |-> p.commit, applied |-> p.applied, lci |-> p.lci,
        nextIdx |-> p.nextIdx, matchIdx |-> p.matchIdx, fresh |-> ToSet(p.fresh),
        others |-> ToSet(p.others), ro |-> ToSet(p.ro), conn |-> ToSet(p.conn),
        elDue |-> p.elDue, hbDue |-> p.hbDue, queue |-> p.queue, wc |-> p.wc, wr |-> p.wr,
        rcnt |-> p.rcnt, noopIdx |-> p.noopIdx, chgIdx |-> p.chgIdx, hist |-> p.hist, ver |-> p.ver,
        ready |-> p.ready, force |-> p.force, lse |-> p.lse, needLoad |-> p.needLoad, serPid |-> p.serPid,
        serId |-> p.serId, snap |-> p.snap, trans |-> p.trans, incoming |-> p.incoming,
        rocnt |-> p.rocnt, roid |-> p.roid, metaCommit |-> p.metaCommit, names |-> p.names, codeVer |-> p.codeVer,
        child |-> IF p.child.st = "run" THEN [st |-> "run", content |-> SnapContent(p.child.content)] ELSE [st |-> p.child.st]]

Steps(t) == Traces[t].steps
Full(t) == Steps(t)[1].full

ChanOfFull(f) ==
  [i \in Nodes |-> [j \in Nodes |->
     LET hits == {k \in 1..Len(f.chan) : f.chan[k].i = i /\ f.chan[k].j = j}
     IN IF hits = {} THEN <<>> ELSE f.chan[CHOOSE k \in hits : TRUE].q]]

TInit ==
  /\ tid \in 1..Len(Traces)
  /\ l = 2
  /\ ndrift = 0 /\ nviol = 0
  /\ node = [n \in Nodes |-> NormNode(Full(tid).nodes[n])]
  /\ chan = ChanOfFull(Full(tid))
  /\ alive = SetSet(Full(tid).net.alive)
  /\ up = PairSet(Full(tid).net.up)
  /\ cbs = Full(tid).cbs
  /\ nexc = Full(tid).nexc
  /\ snaps = <<>>
  /\ GInit

(* the recorded successor state *)
ActNode(e) == [n \in Nodes |-> IF Has(e, "upd") /\ n \in DOMAIN e.upd THEN NormNode(e.upd[n]) ELSE node[n]]
ActChan(e) ==
  IF ~Has(e, "ch") THEN chan
  ELSE [i \in Nodes |-> [j \in Nodes |->
     LET hits == {k \in 1..Len(e.ch) : e.ch[k].i = i /\ e.ch[k].j = j}
     IN IF hits = {} THEN chan[i][j] ELSE e.ch[CHOOSE k \in hits : TRUE].q]]
ActAlive(e) == IF Has(e, "net") THEN SetSet(e.net.alive) ELSE alive
ActUp(e) == IF Has(e, "net") THEN PairSet(e.net.up) ELSE up
ActCbs(e) == IF Has(e, "cbs") THEN [k \in DOMAIN cbs \cup DOMAIN e.cbs |-> IF k \in DOMAIN e.cbs THEN e.cbs[k] ELSE cbs[k]] ELSE cbs
ActNexc(e) == IF Has(e, "nexc") THEN e.nexc ELSE nexc
ActSnaps(e) == IF Has(e, "newsnaps")
               THEN AddSnaps(snaps, [k \in 1..Len(e.newsnaps) |-> [sid |-> e.newsnaps[k].sid, content |-> SnapContent(e.newsnaps[k])]])
               ELSE snaps
(* identity and size of a blob serialized in this step are inputs of the step (gzip/pickle are not modelled) *)
Orc(e) == IF Has(e, "orc") THEN [sid |-> e.orc.sid, size |-> e.orc.size] ELSE [sid |-> "?", size |-> 0]

Ord(e) == IF Has(e, "ord") THEN e.ord ELSE <<>>
(* did the journal's one-second timer store the commit index in this tick (visible as a changed .meta) *)
MetaStored(e) == /\ e.a[1] = "Tick" /\ Has(e, "upd") /\ e.a[2] \in DOMAIN e.upd /\ e.upd[e.a[2]].alive
                 /\ node[e.a[2]].alive /\ e.upd[e.a[2]].metaCommit # node[e.a[2]].metaCommit

DiffFields(exp, act) ==
  {f \in DOMAIN exp \cup DOMAIN act : f \notin DOMAIN exp \/ f \notin DOMAIN act \/ exp[f] # act[f]}

(* expected effect of a context step of node n, compared with the recorded state *)
CtxDiff(n, x, ch0, e) ==
  LET expNode == x.s
      actNode == ActNode(e)[n]
      d1 == DiffFields(expNode, actNode)
      d2 == IF \E m \in Nodes \ {n} : ActNode(e)[m] # node[m] THEN {"othernode"} ELSE {}
      d3 == IF ExpChan(n, x, ch0, alive) # ActChan(e) THEN {"chan"} ELSE {}
      d4 == IF ApplyEv(cbs, x.ev) # ActCbs(e) THEN {"cbs"} ELSE {}
      d5 == IF (IF x.exc THEN nexc + 1 ELSE nexc) # ActNexc(e) THEN {"nexc"} ELSE {}
      d6 == IF ActAlive(e) # ExpAlive(n, x, alive) \/ ActUp(e) # ExpUp(n, x) THEN {"net"} ELSE {}
      d7 == IF AddSnaps(snaps, x.news) # ActSnaps(e) THEN {"snaps"} ELSE {}
  IN d1 \cup d2 \cup d3 \cup d4 \cup d5 \cup d6 \cup d7

(* for the purely relational actions: evaluate Core's action on (current, recorded) *)
Bound(e) ==
  /\ node' = ActNode(e) /\ chan' = ActChan(e) /\ alive' = ActAlive(e) /\ up' = ActUp(e)
  /\ cbs' = ActCbs(e) /\ nexc' = ActNexc(e) /\ snaps' = ActSnaps(e)

StepDiff(e) ==
  LET a == e.a IN
  CASE a[1] = "Tick" ->
         IF node[a[2]].alive
         THEN CtxDiff(a[2], TickCtx(a[2], a[3], IF Len(a) >= 4 THEN a[4] ELSE DefaultCut, Orc(e), Ord(e), MetaStored(e)), chan, e)
         ELSE {"disabled"}
    [] a[1] = "Deliver" ->
         IF chan[a[2]][a[3]] = <<>> \/ ~node[a[3]].alive THEN {"disabled"}
         ELSE LET m == Head(chan[a[2]][a[3]]) IN
              IF m.t = "hello" THEN {} \* checked relationally below
              ELSE IF a[2] \notin node[a[3]].others \cup node[a[3]].ro
              THEN (IF ActNode(e) # node THEN {"node"} ELSE {}) \cup
                   (IF ActChan(e) # [chan EXCEPT ![a[2]][a[3]] = Tail(@)] THEN {"chan"} ELSE {})
              ELSE CtxDiff(a[3], MsgCtx(a[3], a[2], m, Ord(e)), [chan EXCEPT ![a[2]][a[3]] = Tail(@)], e)
    [] a[1] = "Submit" ->
         LET sp == a[4]
             s == node[a[2]]
             z == IF Has(e, "upd") /\ a[2] \in DOMAIN e.upd /\ Len(e.upd[a[2]].queue) > Len(s.queue)
                  THEN Last(e.upd[a[2]].queue).sz ELSE 0     \* the size of the real pickled command is an input
             wantCb == IF Has(sp, "cb") THEN sp.cb ELSE TRUE
             cmd == CASE sp.kind = "add" -> AddCmd(sp.x)
                      [] sp.kind = "rem" -> RemCmd(sp.x)
                      [] sp.kind = "sad" -> AdCmd(sp.x)
                      [] sp.kind = "srm" -> RmCmd(sp.x)
                      [] OTHER -> a[3]
         IN IF sp.kind \in {"op", "boom", "add", "rem", "sad", "srm"}
            THEN CtxDiff(a[2], SubmitCtx(a[2], a[3], cmd, z, wantCb), chan, e) ELSE {"unmodelled-submit"}
    [] OTHER -> {}

Relational(e) ==
  LET a == e.a IN
  CASE a[1] = "Deliver" -> (Head(chan[a[2]][a[3]]).t = "hello") => (chan[a[2]][a[3]] # <<>> /\ Hello(a[2], a[3]))
    [] a[1] = "Break" -> Break(a[2], a[3])
    [] a[1] = "Notice" -> Notice(a[2], a[3])
    [] a[1] = "Connect" -> Connect(a[2], a[3])
    [] a[1] = "Compact" -> Compact(a[2])
    [] a[1] = "Start" -> StartFresh(a[2], ToSet(a[3]))
    [] a[1] = "Stop" -> Stop(a[2])
    [] a[1] = "ChildDone" -> ChildDone(a[2], Orc(e))
    [] a[1] = "ChildKill" -> ChildKilled(a[2])
    [] a[1] = "Crash" -> Crash(a[2])
    [] a[1] = "Restart" -> Restart(a[2])
    [] OTHER -> TRUE

(* the nodes named by the Assert event just consumed, seen from the NEXT state (the formula it is used in is primed as a  *)
(* whole, position counter included): event l - 1 there is event l here                                                   *)
QuietSetBefore == LET a == Steps(tid)[l - 1].a IN {a[3][k] : k \in 1..Len(a[3])} \cap LiveNodes
TNext ==
  /\ l <= Len(Steps(tid))
  /\ l' = l + 1
  /\ tid' = tid
  /\ LET e == Steps(tid)[l] IN
     /\ Bound(e)
     /\ lastTick' = IF e.a[1] = "Tick" THEN e.a[2]
                    ELSE IF e.a[1] = "KillAt" /\ e.a[4][1] = "Tick" THEN e.a[2] ELSE Nil
     /\ IF (\E n \in Nodes : node'[n].alive /\ node'[n].log = <<>>) \/ (\E n \in Nodes : node[n].alive /\ node[n].log = <<>>)
        THEN UNCHANGED gvarsNoTick
        ELSE GNextWith(IF Has(e, "atkill") THEN {[n |-> e.atkill.n, hist |-> e.atkill.hist, log |-> e.atkill.log, commit |-> e.atkill.commit, term |-> e.atkill.term]} ELSE {})
     /\ LET \* a node whose log became EMPTY (the code then fails on every access to its last entry): every formula and
            \* step function presupposes a non-empty log, so such states are reported by one formula of their own
            emptyNow == \E n \in Nodes : node[n].alive /\ node[n].log = <<>>
            emptyNext == \E n \in Nodes : node'[n].alive /\ node'[n].log = <<>>
            \* known finding KF7, second consequence: the pending compaction of a node whose log was meanwhile replaced by an
            \* OLDER snapshot trims beyond the end of the log
            kf7 == \A n \in Nodes : (node'[n].alive /\ node'[n].log = <<>> /\ node[n].alive /\ node[n].log # <<>>) =>
                      (node[n].serPid = -1 /\ node[n].serId > Last(node[n].log).idx)
            d == IF emptyNow \/ emptyNext THEN {} ELSE IF Conform THEN StepDiff(e) ELSE {}
            rel == IF emptyNow \/ emptyNext THEN TRUE ELSE IF Conform THEN Relational(e) ELSE TRUE
            bad == IF emptyNext /\ ~emptyNow THEN (IF kf7 THEN {"C04.LogNeverEmpty#KF7"} ELSE {"C04.LogNeverEmpty", "C01.LogNeverEmpty"})
                   ELSE IF emptyNow \/ emptyNext THEN {}
                   ELSE StepViolations \cup StateViolations'
                   \cup (IF e.a[1] = "Assert" /\ ~(IF Len(e.a) >= 3 THEN ConvergedIn(QuietSetBefore)' ELSE Converged')
                         THEN (IF (IF Len(e.a) >= 3 THEN ResetLivelockSigIn(QuietSetBefore)' ELSE ResetLivelockSig') THEN {"C05.Converged#KF5"} ELSE {"C05.Converged"}) ELSE {})
        IN /\ ndrift' = IF d = {} /\ rel THEN ndrift
                        ELSE IF PrintT(<<"DRIFT", tid, l, e.a, d, rel>>) THEN ndrift + 1 ELSE ndrift + 1
           /\ nviol' = IF bad = {} THEN nviol
                       ELSE IF PrintT(<<"VIOL", tid, l, e.a, bad>>) THEN nviol + 1 ELSE nviol + 1
     /\ (l = Len(Steps(tid))) => PrintT(<<"DONE", tid, ndrift', nviol'>>)

TSpec == TInit /\ [][TNext]_tvars
=============================================================================

------------------------------ MODULE Fallback ------------------------------
(***************************************************************************)
(* The leader-fallback slice of SyncObj._onTick with real (integer) time   *)
(* (C20): a leader remembers when each voter last answered                 *)
(* (lastResponseTime, set to "now" for everybody when it becomes leader),  *)
(* and on every tick steps down unless itself plus the voters heard from   *)
(* after now - F form a strict majority of the voters it knows.            *)
(* hasQuorum is the analogous count over connections.                      *)
(***************************************************************************)
EXTENDS Naturals, Integers, FiniteSets, TLC

CONSTANTS Followers, F, MaxNow, Steps      \* other voters, leaderFallbackTimeout, clock bound, clock advances explored

VARIABLES now, role, last, linked
vars == <<now, role, last, linked>>

Majority(cnt) == 2 * cnt > Cardinality(Followers) + 1
Heard(t, l) == {m \in Followers : l[m] > t - F}

Init == now = 0 /\ role = "L" /\ last = [m \in Followers |-> 0] /\ linked = Followers

(* the clock advances by d and the node ticks *)
Tick(d) ==
  /\ now + d <= MaxNow
  /\ now' = now + d
  /\ role' = IF role = "L" /\ ~Majority(1 + Cardinality(Heard(now + d, last))) THEN "F" ELSE role
  /\ UNCHANGED <<last, linked>>

(* an answer (next_node_idx) of follower m is processed *)
Reply(m) ==
  /\ role = "L" /\ m \in linked
  /\ last' = [last EXCEPT ![m] = now]
  /\ UNCHANGED <<now, role, linked>>

Cut(m) == m \in linked /\ linked' = linked \ {m} /\ UNCHANGED <<now, role, last>>
Heal(m) == m \notin linked /\ linked' = linked \cup {m} /\ UNCHANGED <<now, role, last>>

Next == (\E d \in Steps : Tick(d)) \/ (\E m \in Followers : Reply(m) \/ Cut(m) \/ Heal(m))
Spec == Init /\ [][Next]_vars

(* C20: whoever still is leader after a tick has heard from a majority within F (or became leader within F) *)
MaxStepOf == CHOOSE d \in Steps : \A e \in Steps : e <= d
StepDownBound == role = "L" => (now <= F \/ Majority(1 + Cardinality({m \in Followers : last[m] > now - F - MaxStepOf})))
(* evaluated right after a tick (action property): exact *)
TickExact == [][(now' # now /\ role' = "L") => Majority(1 + Cardinality(Heard(now', last')))]_vars
(* a node that heard from nobody for longer than F is not leader after its next tick *)
CutOffStepsDown == [][(now' # now /\ Heard(now', last') = {} /\ Cardinality(Followers) >= 1) => role' # "L"]_vars
=============================================================================

---------------------------- MODULE FallbackTrace ----------------------------
(* Timed observations of a real leader (its clock, its role after each tick, lastResponseTime per voter, its    *)
(* connections, hasQuorum) against Fallback: recompute the step-down decision with the real numbers.            *)
EXTENDS Naturals, Integers, Sequences, FiniteSets, TLC, Json, IOUtils, TLCExt
Batch == JsonDeserialize(IOEnv.TRACE_FILE)
Traces == Batch.traces
VARIABLES tid, l, prev, heard, heardL
(* heard: the specification's OWN record of when each voter last answered (a next_node_idx reply processed by the   *)
(* leader; everybody at the moment it became leader; a member at the moment the leader added it) - not read from    *)
(* the implementation, whose lastResponseTime is only compared against it                                            *)
Steps(t) == Traces[t].steps
ToSet(q) == {q[k] : k \in 1..Len(q)}
AllIds == {"a", "b", "c", "d", "e", "o1", "o2", "z"}
TInit == tid \in 1..Len(Traces) /\ l = 1 /\ prev = [role |-> "F", now |-> 0, others |-> {}] /\ heard = [m \in AllIds |-> 0] /\ heardL = [m \in AllIds |-> 0]
Maj(cnt, voters) == 2 * cnt > voters
TNext ==
  /\ l <= Len(Steps(tid)) /\ l' = l + 1 /\ tid' = tid
  /\ LET e == Steps(tid)[l]
         F == Traces[tid].f
         oth == ToSet(e.others)
         nv == Cardinality(oth) + 1
         heard1 == [m \in AllIds |->
                      IF e.a = "Init" THEN e.now
                      ELSE IF e.a = "Reply" /\ e.from = m /\ e.mt = "next_node_idx" /\ prev.role = "L" /\ m \in prev.others THEN e.now
                      ELSE IF m \in oth /\ m \notin prev.others /\ e.a # "Init" THEN e.now      \* added as a member just now
                      ELSE heard[m]]
         \* the member view the decision is taken with: a tick checks before it applies a membership entry (either view is accepted)
         Exp(V) == IF e.a = "Tick" /\ prev.role = "L" /\ ~Maj(1 + Cardinality({m \in V : heard[m] > e.now - F}), Cardinality(V) + 1) THEN "F" ELSE
                   IF e.a = "Tick" THEN prev.role ELSE e.role
         pv == IF prev.others = {} THEN oth ELSE prev.others
         expRole == IF Exp(pv) = e.role THEN Exp(pv) ELSE Exp(oth)
         \* "longer than the timeout": an answer received exactly F ago still counts for the property (the code is stricter)
         heardNow == {m \in oth : heard1[m] >= e.now - F}
         implLast == [m \in oth |-> IF m \in DOMAIN e.last THEN e.last[m] ELSE -1]
         hqExp == Maj(1 + Cardinality(oth \cap ToSet(e.up)), nv)
         d == (IF e.a = "Tick" /\ prev.role = "L" /\ expRole # e.role THEN {"role"} ELSE {})
              \cup (IF e.role = "L" /\ \E m \in oth : implLast[m] # heard1[m] THEN {"lastResponseTime"} ELSE {})
         heardPrev == {m \in pv : heard1[m] >= e.now - F}
         bad == (IF e.a = "Tick" /\ e.role = "L" /\ prev.role = "L" /\ ~Maj(1 + Cardinality(heardNow), nv)
                    /\ ~Maj(1 + Cardinality(heardPrev), Cardinality(pv) + 1) THEN {"C20.StepDownBound"} ELSE {})
                \cup (IF e.hq # hqExp THEN {"C20.HasQuorumExact"} ELSE {})
                \* SUCCESS for a command the leader accepted at observation e.subL: a majority answered after that
                \cup (IF e.a = "Ack" /\ ~Maj(1 + Cardinality({m \in AllIds : heardL[m] > e.subL}), Cardinality(prev.others \cup oth) + 1)
                      THEN {"C20.NoSuccessWhileCutOff"} ELSE {})
     IN /\ prev' = [role |-> e.role, now |-> e.now, others |-> oth]
        /\ heard' = heard1
        /\ heardL' = [m \in AllIds |-> IF e.a = "Reply" /\ e.from = m /\ e.mt = "next_node_idx" THEN l ELSE heardL[m]]
        /\ (d # {}) => PrintT(<<"DRIFT", tid, l, <<e.a>>, d>>)
        /\ (bad # {}) => PrintT(<<"VIOL", tid, l, <<e.a>>, bad>>)
        /\ (l = Len(Steps(tid))) => PrintT(<<"DONE", tid, 0, 0>>)
TSpec == TInit /\ [][TNext]_<<tid, l, prev, heard, heardL>>
=============================================================================

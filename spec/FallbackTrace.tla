---------------------------- MODULE FallbackTrace ----------------------------
(* Timed observations of a real leader (its clock, its role after each tick, lastResponseTime per voter, its    *)
(* connections, hasQuorum) against Fallback: recompute the step-down decision with the real numbers.            *)
EXTENDS Naturals, Integers, Sequences, FiniteSets, TLC, Json, IOUtils, TLCExt
Batch == JsonDeserialize(IOEnv.TRACE_FILE)
Traces == Batch.traces
VARIABLES tid, l, prev
Steps(t) == Traces[t].steps
ToSet(q) == {q[k] : k \in 1..Len(q)}
TInit == tid \in 1..Len(Traces) /\ l = 1 /\ prev = [role |-> "F", last |-> <<>>, now |-> 0]
Maj(cnt, voters) == 2 * cnt > voters
TNext ==
  /\ l <= Len(Steps(tid)) /\ l' = l + 1 /\ tid' = tid
  /\ LET e == Steps(tid)[l]
         F == Traces[tid].f
         oth == ToSet(e.others)
         nv == Cardinality(oth) + 1
         heardBefore == {m \in oth : m \in DOMAIN prev.last /\ prev.last[m] > e.now - F}
         expRole == IF e.a = "Tick" /\ prev.role = "L" /\ ~Maj(1 + Cardinality(heardBefore), nv) THEN "F" ELSE
                    IF e.a = "Tick" THEN prev.role ELSE e.role
         heardNow == {m \in oth : m \in DOMAIN e.last /\ e.last[m] > e.now - F}
         hqExp == Maj(1 + Cardinality(oth \cap ToSet(e.conn)), nv)
         d == IF e.a = "Tick" /\ prev.role = "L" /\ expRole # e.role THEN {"role"} ELSE {}
         bad == (IF e.a = "Tick" /\ e.role = "L" /\ prev.role = "L" /\ ~Maj(1 + Cardinality(heardNow), nv) THEN {"C20.StepDownBound"} ELSE {})
                \cup (IF e.hq # hqExp THEN {"C20.HasQuorumExact"} ELSE {})
     IN /\ prev' = [role |-> e.role, last |-> e.last, now |-> e.now]
        /\ (d # {}) => PrintT(<<"DRIFT", tid, l, <<e.a>>, d>>)
        /\ (bad # {}) => PrintT(<<"VIOL", tid, l, <<e.a>>, bad>>)
        /\ (l = Len(Steps(tid))) => PrintT(<<"DONE", tid, 0, 0>>)
TSpec == TInit /\ [][TNext]_<<tid, l, prev>>
=============================================================================

------------------------------ MODULE Framing ------------------------------
(***************************************************************************)
(* pysyncobj/tcp_connection.py: the length-prefixed framing of one         *)
(* direction of a TCP connection (C13).                                    *)
(*                                                                         *)
(* Bytes are tokens <<f, i>> : the i-th byte of frame f (bytes 1..4 are    *)
(* the length field, the rest the compressed payload), so that any         *)
(* misalignment is visible.  The sender's write buffer is drained by       *)
(* socket.send accepting any number of bytes (short writes, EAGAIN = 0);   *)
(* the receiver appends whatever recv returns (splits, merges) and runs    *)
(* the parse loop.  A frame may be corrupted in its length field (Len[f]   *)
(* differs from the payload size, possibly negative) or in its payload     *)
(* (Bad[f]).                                                               *)
(*                                                                         *)
(* Decoding oracle (assumptions, DESIGN 5/C13): zlib+pickle accept a byte  *)
(* slice iff it STARTS with one complete, uncorrupted payload (zlib        *)
(* ignores trailing bytes); four bytes that are not the length field of    *)
(* one frame are read as some arbitrary length: the receiver then either   *)
(* waits for more bytes or fails to decode - it never decodes a message.   *)
(***************************************************************************)
EXTENDS Naturals, Integers, Sequences, FiniteSets, TLC

CONSTANTS
  Scenario,     \* name of the parameter set explored (see Pars)
  MaxStep       \* bytes moved at most by one send / recv

(* par = [n, l, bad]: payload sizes of the frames, values of their length fields (= payload size unless      *)
(* corrupted; may be negative), set of frames whose payload bytes are corrupted.  It never changes; it is a  *)
(* variable so that trace validation can take it from each trace.                                            *)
VARIABLE par
N == par.n
LenF == par.l
Bad == par.bad
Pars ==
  CASE Scenario = "ok"    -> {[n |-> <<0, 2, 3>>, l |-> <<0, 2, 3>>, bad |-> {}]}
    [] Scenario = "neg"   -> {[n |-> <<0, 2, 3>>, l |-> <<0, -3, 3>>, bad |-> {}], [n |-> <<0, 2, 3>>, l |-> <<-1, 2, 3>>, bad |-> {}],
                              [n |-> <<0, 2, 3>>, l |-> <<0, -8, 3>>, bad |-> {}], [n |-> <<2, 2, 3>>, l |-> <<2, 2, -1>>, bad |-> {}]}
    [] Scenario = "len"   -> {[n |-> <<0, 2, 3>>, l |-> <<0, 1, 3>>, bad |-> {}], [n |-> <<0, 2, 3>>, l |-> <<0, 4, 3>>, bad |-> {}],
                              [n |-> <<1, 2, 3>>, l |-> <<9, 2, 3>>, bad |-> {}], [n |-> <<0, 2, 3>>, l |-> <<0, 2, 1>>, bad |-> {}]}
    [] Scenario = "bad"   -> {[n |-> <<0, 2, 3>>, l |-> <<0, 2, 3>>, bad |-> {2}], [n |-> <<1, 2, 3>>, l |-> <<1, 2, 3>>, bad |-> {1}],
                              [n |-> <<0, 2, 3>>, l |-> <<0, 2, 3>>, bad |-> {3}]}
    [] OTHER -> {}

NF == Len(N)
Frame(f) == [i \in 1..(4 + N[f]) |-> <<f, i>>]
Corrupted(f) == LenF[f] # N[f] \/ f \in Bad

VARIABLES sent, wbuf, wire, rbuf, delivered, rstate, ndisc, waiting
vars == <<par, sent, wbuf, wire, rbuf, delivered, rstate, ndisc, waiting>>

Init == /\ par \in Pars
        /\ sent = 0 /\ wbuf = <<>> /\ wire = <<>> /\ rbuf = <<>> /\ delivered = <<>>
        /\ rstate = "C" /\ ndisc = 0 /\ waiting = FALSE

(* ---- the parse loop (__processParseMessage until it returns None) ---- *)
IsHeader(b) == Len(b) >= 4 /\ \E f \in 1..NF : \A i \in 1..4 : b[i] = <<f, i>>
HeaderFrame(b) == b[1][1]
Payload(f) == [i \in 1..N[f] |-> <<f, i + 4>>]
StartsWithPayload(d, f) == Len(d) >= N[f] /\ SubSeq(d, 1, N[f]) = Payload(f) /\ f \notin Bad

(* python slice b[4:4+l] and b[4+l:] for any integer l; indices clamp, negative ones count from the end *)
PyIdx(b, k) == IF k < 0 THEN (IF Len(b) + k < 0 THEN 0 ELSE Len(b) + k) ELSE (IF k > Len(b) THEN Len(b) ELSE k)
PySlice(b, a, z) == SubSeq(b, PyIdx(b, a) + 1, PyIdx(b, z))
PyFrom(b, a) == SubSeq(b, PyIdx(b, a) + 1, Len(b))

(* result of the loop: [buf, del, st] ; st = "C" still connected, "D" disconnected, "W" cannot be told (misaligned) *)
RECURSIVE Parse(_, _, _)
Parse(b, del, fuel) ==
  IF Len(b) < 4 \/ fuel = 0 THEN [buf |-> b, del |-> del, st |-> "C"]
  ELSE IF ~IsHeader(b) THEN [buf |-> b, del |-> del, st |-> "W"]
  ELSE LET f == HeaderFrame(b)
           l == LenF[f]
       IN IF l < 0 THEN [buf |-> <<>>, del |-> del, st |-> "D"]          \* a negative length is invalid: disconnect
          ELSE IF Len(b) - 4 < l THEN [buf |-> b, del |-> del, st |-> "C"]
          ELSE LET d == PySlice(b, 4, 4 + l)
               IN IF StartsWithPayload(d, f)
                  THEN Parse(PyFrom(b, 4 + l), Append(del, f), fuel - 1)
                  ELSE [buf |-> <<>>, del |-> del, st |-> "D"]

(* ---- actions ---- *)
Send ==
  /\ sent < NF /\ rstate = "C"
  /\ sent' = sent + 1 /\ wbuf' = wbuf \o Frame(sent + 1)
  /\ UNCHANGED <<par, wire, rbuf, delivered, rstate, ndisc, waiting>>

(* socket.send accepts k bytes of the write buffer *)
SockSend(k) ==
  /\ k \in 1..MaxStep /\ k <= Len(wbuf)
  /\ wire' = wire \o SubSeq(wbuf, 1, k) /\ wbuf' = SubSeq(wbuf, k + 1, Len(wbuf))
  /\ UNCHANGED <<par, sent, rbuf, delivered, rstate, ndisc, waiting>>

(* a READ event: recv returns k bytes in total, then the parse loop runs *)
Recv(k) ==
  /\ rstate = "C" /\ k \in 1..MaxStep /\ k <= Len(wire)
  /\ LET b == rbuf \o SubSeq(wire, 1, k)
         r == Parse(b, delivered, NF + 1)
     IN /\ wire' = SubSeq(wire, k + 1, Len(wire))
        /\ delivered' = r.del
        /\ \/ r.st \in {"C", "D"} /\ rstate' = r.st /\ rbuf' = r.buf /\ waiting' = FALSE
              /\ ndisc' = IF r.st = "D" THEN ndisc + 1 ELSE ndisc
           \/ r.st = "W" /\ \/ rstate' = "D" /\ rbuf' = <<>> /\ ndisc' = ndisc + 1 /\ waiting' = FALSE
                            \/ rstate' = "C" /\ rbuf' = r.buf /\ ndisc' = ndisc /\ waiting' = TRUE
  /\ UNCHANGED <<par, sent, wbuf>>

Next == Send \/ (\E k \in 1..MaxStep : SockSend(k)) \/ (\E k \in 1..MaxStep : Recv(k))
Spec == Init /\ [][Next]_vars

(* ---- C13 ---- *)
IsPrefix(a, b) == Len(a) <= Len(b) /\ SubSeq(b, 1, Len(a)) = a
(* each message once, in order, uncorrupted: the delivered frames are the first ones sent, and only intact ones *)
DeliveredInOrder == IsPrefix(delivered, [i \in 1..NF |-> i]) /\ \A k \in 1..Len(delivered) : delivered[k] \notin Bad
(* nothing is delivered from or after an invalid frame, and once such a frame has been parsed the connection is down *)
FirstCorrupt == IF \E f \in 1..NF : Corrupted(f) THEN CHOOSE f \in 1..NF : Corrupted(f) /\ \A g \in 1..(f - 1) : ~Corrupted(g) ELSE NF + 1
NothingFromInvalid == \A k \in 1..Len(delivered) : delivered[k] < FirstCorrupt \/ (LenF[delivered[k]] > N[delivered[k]] /\ delivered[k] = FirstCorrupt)
InvalidFrameDisconnects ==
  \* all bytes of the first invalid frame (negative length or bad payload) were consumed by the receiver => it is disconnected
  LET f == FirstCorrupt IN
  (f <= NF /\ (LenF[f] < 0 \/ f \in Bad) /\ rstate = "C") =>
     ~(\E k \in 1..Len(delivered) : delivered[k] >= f) /\
     (Len(delivered) = f - 1 => (Len(rbuf) < 4 + (IF LenF[f] < 0 THEN 0 ELSE LenF[f]) \/ waiting))
DisconnectOnce == ndisc <= 1 /\ (rstate = "D" <=> ndisc = 1)
=============================================================================

---------------------------- MODULE FramingTrace ----------------------------
(* Traces of a real TcpConnection pair over scripted sockets, validated against Framing: the specification   *)
(* moves the same numbers of bytes and must arrive at the same deliveries, receiver state and buffer size;     *)
(* the C13 formulas are evaluated on the observed outcomes.                                                    *)
EXTENDS Framing, Json, IOUtils, TLCExt

Batch == JsonDeserialize(IOEnv.TRACE_FILE)
Traces == Batch.traces
VARIABLES tid, l
tvars == <<vars, tid, l>>
Steps(t) == Traces[t].steps
ToSet(q) == {q[k] : k \in 1..Len(q)}

TInit == /\ tid \in 1..Len(Traces) /\ l = 1
         /\ par = [n |-> Traces[tid].n, l |-> Traces[tid].l, bad |-> ToSet(Traces[tid].bad)]
         /\ sent = 0 /\ wbuf = <<>> /\ wire = <<>> /\ rbuf = <<>> /\ delivered = <<>>
         /\ rstate = "C" /\ ndisc = 0 /\ waiting = FALSE

TNext ==
  /\ l <= Len(Steps(tid)) /\ l' = l + 1 /\ tid' = tid /\ par' = par
  /\ LET e == Steps(tid)[l] IN
     CASE e.a = "Send" ->
            /\ sent' = sent + 1 /\ wbuf' = wbuf \o Frame(sent + 1)
            /\ UNCHANGED <<wire, rbuf, delivered, rstate, ndisc, waiting>>
       [] e.a = "SockSend" ->
            LET k == IF e.k > Len(wbuf) THEN Len(wbuf) ELSE e.k IN
            /\ wire' = wire \o SubSeq(wbuf, 1, k) /\ wbuf' = SubSeq(wbuf, k + 1, Len(wbuf))
            /\ UNCHANGED <<sent, rbuf, delivered, rstate, ndisc, waiting>>
            \* what the sender hands to its socket is exactly its frames, in order, every byte once (checked on the real bytes)
            /\ (e.k > Len(wbuf) \/ ~e.wireok) => PrintT(<<"VIOL", tid, l, <<"SockSend">>, {"C13.WireIsFramesInOrder"}>>)
       [] e.a = "Recv" ->
            LET kk == IF e.k > Len(wire) THEN Len(wire) ELSE e.k     \* (more bytes than the frames have: reported at SockSend)
                b == rbuf \o SubSeq(wire, 1, kk)
                r == Parse(b, delivered, NF + 1)
                expState == IF r.st = "W" THEN e.state ELSE r.st
                expBuf == IF expState = "D" THEN 0 ELSE Len(r.buf)
                d == (IF r.del # e.delivered THEN {"delivered"} ELSE {})
                     \cup (IF expState # e.state THEN {"state"} ELSE {})
                     \cup (IF expBuf # e.rbuf THEN {"rbuf"} ELSE {})
            IN /\ wire' = SubSeq(wire, kk + 1, Len(wire))
               /\ delivered' = e.delivered /\ rstate' = e.state /\ ndisc' = e.ndisc
               /\ rbuf' = IF e.state = "D" THEN <<>> ELSE r.buf
               /\ waiting' = (r.st = "W" /\ e.state = "C")
               /\ UNCHANGED <<sent, wbuf>>
               /\ (d # {}) => PrintT(<<"DRIFT", tid, l, <<"Recv">>, d>>)
               /\ (e.exc) => PrintT(<<"VIOL", tid, l, <<"Recv">>, {"C13.NoEscape"}>>)
  /\ LET bad == (IF DeliveredInOrder' THEN {} ELSE {"C13.DeliveredInOrder"})
                \cup (IF NothingFromInvalid' THEN {} ELSE {"C13.NothingFromInvalid"})
                \cup (IF InvalidFrameDisconnects' THEN {} ELSE {"C13.InvalidFrameDisconnects"})
                \cup (IF DisconnectOnce' THEN {} ELSE {"C13.DisconnectOnce"})
     IN (bad # {}) => PrintT(<<"VIOL", tid, l, <<Steps(tid)[l].a>>, bad>>)
  \* "received as the same sequence": when every byte of an undamaged stream has been handed over, every message is there
  /\ (l = Len(Steps(tid)) /\ FirstCorrupt = NF + 1 /\ wbuf' = <<>> /\ wire' = <<>> /\ (Len(delivered') # NF \/ rstate' # "C"))
        => PrintT(<<"VIOL", tid, l, <<Steps(tid)[l].a>>, {"C13.EverythingDelivered"}>>)
  /\ (l = Len(Steps(tid))) => PrintT(<<"DONE", tid, 0, 0>>)
TSpec == TInit /\ [][TNext]_tvars
=============================================================================

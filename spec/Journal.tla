------------------------------ MODULE Journal ------------------------------
(***************************************************************************)
(* pysyncobj/journal.py: FileJournal + ResizableFile + MetaStorer at the   *)
(* grain of primitive storage writes (C08, storage layer of C06).          *)
(*                                                                         *)
(* The file is a header word (offset of the end of the last valid record)  *)
(* followed by a record area.  Every journal operation is a fixed sequence *)
(* of primitive writes (record bytes, header word, .meta tmp, .meta move). *)
(* A process can be killed before any of them; the reopened journal shows  *)
(* exactly the records below the header offset.                            *)
(*                                                                         *)
(* State is what matters for the property: mem (the in-memory list the     *)
(* node works with), area (records physically in the file, in order),      *)
(* hdr (how many of them the header makes visible), fsize (file size in    *)
(* bytes, for the growth rule), meta / metaTmp (.meta file and its tmp),   *)
(* commitMem (commit index held in memory), saved (the timer flag).        *)
(***************************************************************************)
EXTENDS Naturals, Integers, Sequences, FiniteSets, TLC

CONSTANTS
  Sizes,        \* command sizes (bytes) an appended record may have
  InitSize,     \* initial file size (1024)
  MaxOps,       \* bound on the number of operations
  MaxLen,       \* bound on the journal length
  Commits       \* commit index values that may be set

FIRST == 40                      \* FIRST_RECORD_OFFSET
RecBytes(z) == z + 24            \* 4 + (8 + 8 + command) + 4

VARIABLES mem, area, hdr, fsize, meta, metaTmp, commitMem, saved, everSet, nops, exc, nextId, dead,
          ks        \* ghost: [op, pre] of the operation the process was killed in (pre = entries before it)
vars == <<mem, area, hdr, fsize, meta, metaTmp, commitMem, saved, everSet, nops, exc, nextId, dead, ks>>

Rec(id, z) == [id |-> id, sz |-> z]
SumBytes(rs) == LET RECURSIVE S(_) S(k) == IF k = 0 THEN 0 ELSE S(k - 1) + RecBytes(rs[k].sz) IN S(Len(rs))
Visible == SubSeq(area, 1, hdr)              \* what a reopen reads

Init ==
  /\ mem = <<>> /\ area = <<>> /\ hdr = 0 /\ fsize = InitSize
  /\ meta = 1 /\ metaTmp = 1 /\ commitMem = 1 /\ saved = TRUE /\ everSet = {1}
  /\ nops = 0 /\ exc = FALSE /\ nextId = 1 /\ dead = FALSE /\ ks = [has |-> FALSE]

(* ------------------------------------------------------------------------ *)
(* primitive writes.  A write is a record [k, ...]; Apply folds a sequence of *)
(* them into the storage variables.                                          *)
(* ResizableFile.write: the file is grown to twice its size if the data does *)
(* not fit; after the repair of the growth defect it is grown until it fits. *)
GrowTo(sz, need) == LET RECURSIVE G(_) G(s) == IF need <= s THEN s ELSE G(2 * s) IN G(sz)

ApplyWrite(st, w) ==
  CASE w.k = "rec" -> \* record bytes at the current offset (= after the first w.at records)
         [st EXCEPT !.area = SubSeq(st.area, 1, w.at) \o <<w.rec>>,
                    !.fsize = GrowTo(st.fsize, FIRST + SumBytes(SubSeq(st.area, 1, w.at)) + RecBytes(w.rec.sz))]
    [] w.k = "hdr" -> [st EXCEPT !.hdr = w.n]
    [] w.k = "mtmp" -> [st EXCEPT !.metaTmp = w.c]
    [] w.k = "mmv" -> [st EXCEPT !.meta = st.metaTmp]

RECURSIVE ApplyAll(_, _)
ApplyAll(st, ws) == IF ws = <<>> THEN st ELSE ApplyAll(ApplyWrite(st, Head(ws)), Tail(ws))

Store == [area |-> area, hdr |-> hdr, fsize |-> fsize, meta |-> meta, metaTmp |-> metaTmp]

(* the writes of the journal operations, in order; cur = number of records below the in-memory offset *)
AddWrites(cur, r) == <<[k |-> "rec", at |-> cur, rec |-> r], [k |-> "hdr", n |-> cur + 1]>>
RECURSIVE AddAllWrites(_, _)
AddAllWrites(cur, rs) == IF rs = <<>> THEN <<>> ELSE AddWrites(cur, Head(rs)) \o AddAllWrites(cur + 1, Tail(rs))
ClearWrites == <<[k |-> "hdr", n |-> 0]>>
(* deleteEntriesFrom: the header is rewritten after every 10th removed record and at the end *)
DelFromWrites(len, keep) ==
  LET removed == len - keep
      steps == {q \in 1..removed : q % 10 = 0}
      RECURSIVE W(_)
      W(q) == IF q > removed THEN <<>>
              ELSE (IF q % 10 = 0 THEN <<[k |-> "hdr", n |-> len - q]>> ELSE <<>>) \o W(q + 1)
  IN W(1) \o <<[k |-> "hdr", n |-> keep]>>

WritesOf(op) ==
  CASE op.k = "add" -> AddWrites(Len(mem), op.rec)
    [] op.k = "clear" -> ClearWrites
    [] op.k = "delfrom" -> DelFromWrites(Len(mem), op.n)
    [] op.k = "delto" -> ClearWrites \o AddAllWrites(0, SubSeq(mem, op.n + 1, Len(mem)))   \* clear, then re-add
    [] op.k = "timer" -> IF saved THEN <<>> ELSE <<[k |-> "mtmp", c |-> commitMem], [k |-> "mmv"]>>
    [] OTHER -> <<>>

MemAfter(op) ==
  CASE op.k = "add" -> Append(mem, op.rec)
    [] op.k = "clear" -> <<>>
    [] op.k = "delfrom" -> SubSeq(mem, 1, op.n)
    [] op.k = "delto" -> SubSeq(mem, op.n + 1, Len(mem))
    [] OTHER -> mem

(* what the interrupted operation was meant to keep of the entries present before it *)
KeptBy(op) ==
  CASE op.k = "add" -> mem
    [] op.k = "clear" -> <<>>
    [] op.k = "delfrom" -> SubSeq(mem, 1, op.n)
    [] op.k = "delto" -> SubSeq(mem, op.n + 1, Len(mem))
    [] OTHER -> mem

Ops ==
  {[k |-> "add", rec |-> Rec(nextId, z)] : z \in Sizes}
  \cup {[k |-> "clear"]}
  \cup {[k |-> "delfrom", n |-> n] : n \in 0..Len(mem)}
  \cup {[k |-> "delto", n |-> n] : n \in 0..Len(mem)}
  \cup {[k |-> "timer"]}
  \cup {[k |-> "setc", c |-> c] : c \in Commits}

Set(st) ==
  /\ area' = st.area /\ hdr' = st.hdr /\ fsize' = st.fsize /\ meta' = st.meta /\ metaTmp' = st.metaTmp

(* a complete operation *)
Do(op) ==
  /\ ~dead /\ nops < MaxOps
  /\ (op.k = "add") => Len(mem) < MaxLen
  /\ Set(ApplyAll(Store, WritesOf(op)))
  /\ mem' = MemAfter(op)
  /\ commitMem' = IF op.k = "setc" THEN op.c ELSE commitMem
  /\ saved' = IF op.k = "setc" THEN FALSE ELSE IF op.k = "timer" THEN TRUE ELSE saved
  /\ everSet' = IF op.k = "setc" THEN everSet \cup {op.c} ELSE everSet
  /\ nextId' = IF op.k = "add" THEN nextId + 1 ELSE nextId
  /\ nops' = nops + 1
  /\ UNCHANGED <<exc, dead, ks>>

(* the process is killed before the (j+1)-th write of the operation: only the first j happen *)
KillIn(op, j) ==
  /\ ~dead /\ nops < MaxOps
  /\ j \in 0..(Len(WritesOf(op)) - 1)
  /\ Set(ApplyAll(Store, SubSeq(WritesOf(op), 1, j)))
  /\ dead' = TRUE
  /\ ks' = [has |-> TRUE, op |-> op, pre |-> mem, keep |-> KeptBy(op), metaPre |-> meta, commitPre |-> commitMem]
  /\ UNCHANGED <<mem, commitMem, saved, everSet, nextId, exc>>
  /\ nops' = nops + 1

(* FileJournal(path) on the files as they are *)
Reopen ==
  /\ mem' = Visible /\ commitMem' = meta /\ saved' = TRUE /\ dead' = FALSE
  /\ area' = Visible      \* records beyond the header are overwritten by the next append: forget them
  /\ ks' = [has |-> FALSE]
  /\ UNCHANGED <<hdr, fsize, meta, metaTmp, everSet, nops, exc, nextId>>

Next == \/ \E op \in Ops : Do(op)
        \/ \E op \in Ops : \E j \in 0..(2 * MaxLen + 2) : KillIn(op, j)
        \/ Reopen
Spec == Init /\ [][Next]_vars

-----------------------------------------------------------------------------
(* C08 *)
IsSlice(v, l) == \E a \in 1..(Len(l) + 1) : \E b \in 0..Len(l) : v = SubSeq(l, a, b)
Contains(v, keep) == keep = <<>> \/ \E a \in 1..Len(v) : a + Len(keep) - 1 <= Len(v) /\ SubSeq(v, a, a + Len(keep) - 1) = keep

(* while the process runs, the file shows exactly the in-memory list (also to a reopen) *)
SameAsList == ~dead => (Visible = mem /\ hdr = Len(mem))
(* the stored commit index is one that was actually set *)
CommitIndexWasSet == meta \in everSet
(* after a kill: a contiguous range of the previous entries containing everything the operation was to keep; *)
(* an append is all-or-nothing                                                                                *)
KillSafe ==
  (dead /\ ks.has) =>
     IF ks.op.k = "add" THEN Visible = ks.pre \/ Visible = Append(ks.pre, ks.op.rec)
     ELSE IsSlice(Visible, ks.pre) /\ Contains(Visible, ks.keep)
(* a kill inside the store of the commit index leaves the previously stored value or the new one *)
MetaOldOrNew == (dead /\ ks.has) => meta \in {ks.metaPre, ks.commitPre}
(* signature of known finding KF2: killed inside deleteEntriesTo (clear + re-add) *)
HeadDropKill == dead /\ ks.has /\ ks.op.k = "delto"
KillSafeModuloKF2 == HeadDropKill \/ KillSafe
NoException == ~exc
=============================================================================

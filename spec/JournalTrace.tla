---------------------------- MODULE JournalTrace ----------------------------
(***************************************************************************)
(* Traces of the real FileJournal (operations, kills before the k-th       *)
(* primitive write, reopen) validated against Journal: per step the        *)
(* storage the specification computes is compared with what is observed    *)
(* on disk / in the object, and the C08 formulas are evaluated on the       *)
(* observed states.                                                        *)
(***************************************************************************)
EXTENDS Journal, Json, IOUtils, TLCExt

Batch == JsonDeserialize(IOEnv.TRACE_FILE)
Traces == Batch.traces
VARIABLES tid, l
tvars == <<vars, tid, l>>

Steps(t) == Traces[t].steps

TInit == Init /\ tid \in 1..Len(Traces) /\ l = 1

OpOf(e) ==
  CASE e.op = "add" -> [k |-> "add", rec |-> Rec(e.id, e.sz)]
    [] e.op = "delfrom" -> [k |-> "delfrom", n |-> e.n]
    [] e.op = "delto" -> [k |-> "delto", n |-> e.n]
    [] e.op = "setc" -> [k |-> "setc", c |-> e.c]
    [] OTHER -> [k |-> e.op]

TNext ==
  /\ l <= Len(Steps(tid)) /\ l' = l + 1 /\ tid' = tid
  /\ LET e == Steps(tid)[l]
         op == OpOf(e)
         isReopen == e.op = "reopen"
         ws == IF isReopen THEN <<>> ELSE WritesOf(op)
         killed == e.kill >= 0 /\ e.kill < Len(ws)       \* the specification's view: dies before one of ITS writes
         killedReal == e.kill >= 0                          \* the process did die inside the operation
         exp == IF isReopen THEN Store ELSE ApplyAll(Store, IF killed THEN SubSeq(ws, 1, e.kill) ELSE ws)
         expVis == SubSeq(exp.area, 1, exp.hdr)
         expMem == IF isReopen THEN Visible ELSE IF killed THEN mem ELSE MemAfter(op)
         d == (IF expVis # e.visible THEN {"visible"} ELSE {})
              \cup (IF ~killed /\ expMem # e.mem THEN {"mem"} ELSE {})
              \cup (IF exp.fsize # e.fsize THEN {"fsize"} ELSE {})
              \cup (IF exp.meta # e.meta THEN {"meta"} ELSE {})
              \cup (IF e.exc THEN {"exception"} ELSE {})
     IN
     \* the observed state becomes the next state (monitor mode)
     /\ area' = e.visible /\ hdr' = Len(e.visible) /\ fsize' = e.fsize /\ meta' = e.meta
     /\ metaTmp' = IF isReopen THEN metaTmp ELSE exp.metaTmp
     /\ mem' = IF killedReal THEN mem ELSE e.mem
     /\ dead' = killedReal
     /\ exc' = (exc \/ e.exc)
     /\ ks' = IF killedReal THEN [has |-> TRUE, op |-> op, pre |-> mem, keep |-> KeptBy(op), metaPre |-> meta, commitPre |-> commitMem]
               ELSE [has |-> FALSE]
     /\ commitMem' = IF isReopen THEN e.meta ELSE IF e.op = "setc" THEN e.c ELSE commitMem
     /\ saved' = IF isReopen THEN TRUE ELSE IF e.op = "setc" THEN FALSE ELSE IF e.op = "timer" THEN TRUE ELSE saved
     /\ everSet' = IF e.op = "setc" THEN everSet \cup {e.c} ELSE everSet
     /\ nextId' = nextId /\ nops' = nops
     /\ (d # {}) => PrintT(<<"DRIFT", tid, l, <<e.op>>, d>>)
     /\ LET bad == (IF SameAsList' THEN {} ELSE {"C08.SameAsList"})
                   \cup (IF CommitIndexWasSet' THEN {} ELSE {"C08.CommitIndexWasSet"})
                   \cup (IF KillSafe' THEN {} ELSE IF HeadDropKill' THEN {"C08.KillSafe#KF2"} ELSE {"C08.KillSafe"})
                   \cup (IF MetaOldOrNew' THEN {} ELSE {"C08.MetaOldOrNew"})
                   \cup (IF e.exc THEN {"C08.NoException"} ELSE {})
        IN (bad # {}) => PrintT(<<"VIOL", tid, l, <<e.op>>, bad>>)
     /\ (l = Len(Steps(tid))) => PrintT(<<"DONE", tid, 0, 0>>)

TSpec == TInit /\ [][TNext]_tvars
=============================================================================

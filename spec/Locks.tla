------------------------------- MODULE Locks -------------------------------
(***************************************************************************)
(* pysyncobj/batteries.py, ReplLockManager (C16).  The lock table is a     *)
(* replicated object: commands acquire(lock, client, t) / prolongate       *)
(* (client, t) / release(lock, client) carry the CLIENT's clock reading    *)
(* and are executed in log order by every replica, each on its own         *)
(* applied prefix.  A client asks its own replica whether it holds a lock  *)
(* (holder = itself and now - lockTime < U).  The wrapper refuses an       *)
(* acquisition whose answer took longer than U/2 and releases it again.    *)
(* One global integer clock (the property assumes client clocks agree);    *)
(* commit delay and apply lag are arbitrary.                               *)
(***************************************************************************)
EXTENDS Naturals, Integers, Sequences, FiniteSets, TLC, Json

CONSTANTS Clients, Locks, U, MaxNow, MaxLog, Emit    \* U = autoUnlockTime (even); Emit: print behaviours (simulation)

VARIABLES now, queue, log, applied, cst, acts
vars == <<now, queue, log, applied, cst, acts>>
(* queue[c]: commands of client c submitted but not yet in the log (FIFO per client)                           *)
(* cst[c][l]: "idle" | "wait" (tryAcquire in flight, with .t0) | "held"                                        *)

RECURSIVE SumQ(_)
SumQ(S) == IF S = {} THEN 0 ELSE LET c == CHOOSE x \in S : TRUE IN Len(queue[c]) + SumQ(S \ {c})
Room == Len(log) + SumQ(Clients) < MaxLog       \* bound on the number of commands in a behaviour
NoLock == [c |-> "none", t |-> 0]
(* _ReplLockManagerImpl: one command applied to the table (function lock -> [c, t]); returns [tab, res] *)
ApplyCmd(tab, m) ==
  CASE m.k = "acq" ->
         LET cur == tab[m.l]
             free == cur.c = "none" \/ m.t - cur.t > U      \* auto-unlock of an old lock
         IN IF free \/ cur.c = m.c THEN [tab |-> [tab EXCEPT ![m.l] = [c |-> m.c, t |-> m.t]], res |-> TRUE]
            ELSE [tab |-> tab, res |-> FALSE]
    [] m.k = "prol" ->
         [tab |-> [l \in Locks |->
                     IF tab[l].c # "none" /\ m.t - tab[l].t > U THEN NoLock           \* expired: dropped
                     ELSE IF tab[l].c = m.c THEN [c |-> m.c, t |-> m.t] ELSE tab[l]],
          res |-> TRUE]
    [] m.k = "rel" ->
         [tab |-> IF tab[m.l].c = m.c THEN [tab EXCEPT ![m.l] = NoLock] ELSE tab, res |-> TRUE]

RECURSIVE Fold(_, _)
Fold(tab, cmds) == IF cmds = <<>> THEN tab ELSE Fold(ApplyCmd(tab, Head(cmds)).tab, Tail(cmds))
Empty == [l \in Locks |-> NoLock]
TableAt(k) == Fold(Empty, SubSeq(log, 1, k))
IsAcquired(c, l) == LET e == TableAt(applied[c])[l] IN e.c = c /\ now - e.t < U
Considers(c, l) == cst[c][l].s = "held" /\ IsAcquired(c, l)

Init == /\ now = 0 /\ queue = [c \in Clients |-> <<>>] /\ log = <<>> /\ applied = [c \in Clients |-> 0]
        /\ cst = [c \in Clients |-> [l \in Locks |-> [s |-> "idle", t0 |-> 0, re |-> FALSE]]] /\ acts = <<>>

Act(a) == acts' = IF Emit THEN Append(acts, a) ELSE acts

Tick == now < MaxNow /\ now' = now + 1 /\ Act(<<"tick">>) /\ UNCHANGED <<queue, log, applied, cst>>

(* (also by a client that holds the lock already: the entry is refreshed, or re-created if it had expired) *)
TryAcquire(c, l) ==
  /\ cst[c][l].s \in {"idle", "held"} /\ ~cst[c][l].re /\ Room
  /\ queue' = [queue EXCEPT ![c] = Append(@, [k |-> "acq", l |-> l, c |-> c, t |-> now])]
  \* a client that holds the lock keeps considering it held while its second request is on its way (re: t0 is that request's)
  /\ cst' = [cst EXCEPT ![c][l] = IF @.s = "held" THEN [s |-> "held", t0 |-> now, re |-> TRUE] ELSE [s |-> "wait", t0 |-> now, re |-> FALSE]]
  /\ Act(<<"tryAcquire", c, l>>) /\ UNCHANGED <<now, log, applied>>

Release(c, l) ==
  /\ cst[c][l].s = "held" /\ ~cst[c][l].re /\ Room
  /\ queue' = [queue EXCEPT ![c] = Append(@, [k |-> "rel", l |-> l, c |-> c])]
  /\ cst' = [cst EXCEPT ![c][l] = [s |-> "idle", t0 |-> 0, re |-> FALSE]]
  /\ Act(<<"release", c, l>>) /\ UNCHANGED <<now, log, applied>>

(* releasing a lock one does not hold *)
ForeignRelease(c, l) ==
  /\ cst[c][l].s = "idle" /\ Room
  /\ queue' = [queue EXCEPT ![c] = Append(@, [k |-> "rel", l |-> l, c |-> c])]
  /\ Act(<<"release", c, l>>) /\ UNCHANGED <<now, log, applied, cst>>

Prolong(c) ==
  /\ Room
  /\ queue' = [queue EXCEPT ![c] = Append(@, [k |-> "prol", c |-> c, t |-> now])]
  /\ Act(<<"prolong", c>>) /\ UNCHANGED <<now, log, applied, cst>>

(* the oldest submitted command of client c is committed (enters the log) *)
Commit(c) ==
  /\ queue[c] # <<>>
  /\ log' = Append(log, Head(queue[c])) /\ queue' = [queue EXCEPT ![c] = Tail(@)]
  /\ Act(<<"commit", c>>) /\ UNCHANGED <<now, applied, cst>>

(* client c's replica applies the next log entry; if it is c's own pending acquisition, the wrapper gets its answer *)
Apply(c) ==
  /\ applied[c] < Len(log)
  /\ LET m == log[applied[c] + 1]
         r == ApplyCmd(TableAt(applied[c]), m)
         own == m.k = "acq" /\ m.c = c /\ cst[c][m.l].t0 = m.t
                /\ (cst[c][m.l].s = "wait" \/ (cst[c][m.l].s = "held" /\ cst[c][m.l].re))
         late == 2 * (now - m.t) > U
     IN /\ applied' = [applied EXCEPT ![c] = @ + 1]
        /\ IF own
           THEN IF r.res /\ late
                THEN /\ cst' = [cst EXCEPT ![c][m.l] = [s |-> "idle", t0 |-> 0, re |-> FALSE]]
                     /\ queue' = [queue EXCEPT ![c] = Append(@, [k |-> "rel", l |-> m.l, c |-> c])]
                ELSE /\ cst' = [cst EXCEPT ![c][m.l] = [s |-> IF r.res THEN "held" ELSE "idle", t0 |-> 0, re |-> FALSE]]
                     /\ queue' = queue
           ELSE UNCHANGED <<cst, queue>>
  /\ Act(<<"apply", c>>) /\ UNCHANGED <<now, log>>

Next == \/ Tick
        \/ \E c \in Clients : Commit(c) \/ Apply(c) \/ Prolong(c)
        \/ \E c \in Clients, l \in Locks : TryAcquire(c, l) \/ Release(c, l) \/ ForeignRelease(c, l)
Spec == Init /\ [][Next]_vars

(* ---- C16 ---- *)
MutualExclusion == \A l \in Locks : Cardinality({c \in Clients : Considers(c, l)}) <= 1
(* at table level, at any one prefix, a lock has one holder (by construction) and a client told "acquired" was told in time *)
LateAcquireFails ==
  \A c \in Clients, l \in Locks : cst[c][l].s = "held" =>
     \E k \in 1..applied[c] : log[k].k = "acq" /\ log[k].c = c /\ log[k].l = l
(* releasing a lock one does not hold changes nothing *)
ForeignReleaseNoEffect ==
  \A k \in 1..Len(log) : (log[k].k = "rel" /\ TableAt(k - 1)[log[k].l].c # log[k].c) => TableAt(k) = TableAt(k - 1)
(* a lock whose holder stopped prolonging can be taken by somebody else after U *)
ExpiryFrees ==
  \A k \in 1..Len(log) : (log[k].k = "acq" /\ TableAt(k - 1)[log[k].l].c \notin {"none", log[k].c}
                          /\ log[k].t - TableAt(k - 1)[log[k].l].t > U) => TableAt(k)[log[k].l].c = log[k].c
EmitEnd == (~Emit) \/ Len(acts) < 40 \/ PrintT(<<"ACTS", ToJson(acts)>>)
=============================================================================

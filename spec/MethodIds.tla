----------------------------- MODULE MethodIds -----------------------------
(***************************************************************************)
(* How replicated methods get their numeric ids (C17, first sentence):     *)
(* SyncObj.__init__ collects the versioned methods of the object           *)
(* (consumer number 0) and of every consumer (1, 2, ...), sorts them by    *)
(* (version, consumer number, name) and numbers them 0, 1, 2, ... in that  *)
(* order.  Log entries carry these ids.  Claim: extending the code only    *)
(* with methods whose version is higher than every version in the old code *)
(* leaves every old id unchanged.                                          *)
(***************************************************************************)
EXTENDS Naturals, Sequences, FiniteSets, TLC, Json

CONSTANTS Names, Consumers, Versions, MaxOld, MaxAdd

Methods == [ver : Versions, cons : Consumers, name : Names]
Less(a, b) == \/ a.ver < b.ver
              \/ a.ver = b.ver /\ a.cons < b.cons
              \/ a.ver = b.ver /\ a.cons = b.cons /\ a.name < b.name       \* (names are compared as strings by the code)
IdIn(S, m) == Cardinality({x \in S : Less(x, m)})
MaxVer(S) == IF S = {} THEN 0 ELSE CHOOSE v \in {x.ver : x \in S} : \A w \in {x.ver : x \in S} : w <= v

VARIABLES old, new
Init == /\ old \in {S \in SUBSET Methods : Cardinality(S) <= MaxOld /\ S # {}}
        /\ \E add \in {A \in SUBSET {m \in Methods : m.ver > MaxVer(old)} : Cardinality(A) <= MaxAdd} : new = old \cup add
        /\ PrintT(ToJson([t |-> "T", old |-> old, new |-> new]))
Next == UNCHANGED <<old, new>>
Spec == Init /\ [][Next]_<<old, new>>

IdsStable == \A m \in old : IdIn(new, m) = IdIn(old, m)
IdsDense == {IdIn(new, m) : m \in new} = 0..(Cardinality(new) - 1)
=============================================================================

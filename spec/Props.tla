-------------------------------- MODULE Props --------------------------------
(***************************************************************************)
(* The listed properties (properties.jsonl, C01..) as TLA+ formulas over    *)
(* Core's state plus history ("ghost") variables that are computed from the *)
(* state alone - never guessed by the harness.  The same definitions are    *)
(* used (a) as invariants / action properties when TLC explores Core, and   *)
(* (b) by CoreTrace on every state and step a real cluster went through.    *)
(*                                                                         *)
(* StateViolations : names of the state formulas false in this state        *)
(* StepViolations  : names of the step formulas false on (this, next)       *)
(***************************************************************************)
EXTENDS Core

VARIABLES
  G,        \* set of <<position, command id>> : executed by some node's state machine at some time
  CG,       \* set of <<position, term, command id, tc>> : entry covered by some node's commit index at some
            \* time; tc = that node's term when the entry was first seen covered
  elected,  \* set of <<term, node>> : node was leader in term at some time
  granted,  \* set of <<voter, term, candidate>> : voter's votedFor was candidate in term at some time
  maxTerm,  \* node -> highest term it ever held (survives restarts)
  ackIdx,   \* node -> highest log index it acknowledged to a leader (success reply sent) or, as leader, committed
  reapply,  \* node -> last journal index a restarted node has yet to re-apply (0 when none): until then its member
            \* view is the constructor's list (membership is rebuilt lazily at apply time - part of known finding KF1)
  subm,     \* command id -> code version enabled at the submitting node when a versioned call was made (C17)
  preCrash, \* node -> [log, ack] it had when its process last died (Nil while it runs undisturbed since start-up)
  lastTick  \* the node whose tick produced this state, or Nil (set by the wrappers: CoreMC, CoreSim, CoreTrace)

gvars == <<G, CG, elected, granted, maxTerm, ackIdx, reapply, subm, preCrash, lastTick>>
gvarsNoTick == <<G, CG, elected, granted, maxTerm, ackIdx, reapply, subm, preCrash>>

Live(n) == node[n].alive
IsVoter(n) == n \notin Observers

HistPairs(s) == {<<s.hist[k][1], s.hist[k][2]>> : k \in 1..Len(s.hist)}
CommittedOf(s) == {<<s.log[k].idx, s.log[k].term, s.log[k].cmd, s.term>> : k \in {k2 \in 1..Len(s.log) : s.log[k2].idx <= s.commit}}
Key3(p) == <<p[1], p[2], p[3]>>

MaxOf(S) == CHOOSE v \in S : \A w \in S : w <= v
(* what node n has acknowledged by the next state: success replies it put on the wire, its commit index as leader *)
AckSent(n) ==
  {chan'[n][j][k].next - 1 : <<j, k>> \in {<<j2, k2>> \in Nodes \X (1..8) :
        k2 <= Len(chan'[n][j2]) /\ chan'[n][j2][k2].t = "nni" /\ chan'[n][j2][k2].success}}
AckOf(n) == AckSent(n) \cup (IF node'[n].role = "L" THEN {node'[n].commit} ELSE {})

GOf(nd) == UNION {HistPairs(nd[n]) : n \in {m \in Nodes : nd[m].alive}}
CGOf(nd) == UNION {CommittedOf(nd[n]) : n \in {m \in Nodes : nd[m].alive}}
ElectedOf(nd) == {<<nd[n].term, n>> : n \in {m \in Nodes : nd[m].alive /\ nd[m].role = "L"}}
GrantedOf(nd) == {<<n, nd[n].term, nd[n].votedFor>> : n \in {m \in Nodes : nd[m].alive /\ nd[m].votedFor # Nil}}
(* ... and the votes that are on the wire: a process killed inside the step in which it granted its vote is never seen with *)
(* that vote in its memory, but the candidate counts the reply it had sent                                                  *)
GrantsOnWire == UNION {{<<n, chan'[n][j][k].term, j>> : k \in {k2 \in 1..Len(chan'[n][j]) : chan'[n][j][k2].t = "vote"}} :
                          <<n, j>> \in Nodes \X Nodes}

GInit == /\ lastTick = Nil /\ maxTerm = [n \in Nodes |-> 0] /\ ackIdx = [n \in Nodes |-> 0]
         /\ preCrash = [n \in Nodes |-> [has |-> FALSE]] /\ subm = <<>> /\ reapply = [n \in Nodes |-> 0] /\ G = GOf(node) /\ CG = {<<1, 0, NoopCmd, 0>>} /\ elected = ElectedOf(node) /\ granted = GrantedOf(node)
(* extra: states a process went through INSIDE the step and that are no longer visible afterwards (the state *)
(* of a process at the moment it was killed in the middle of a step); records with hist, log, commit, term     *)
GNextWith(extra) ==
         /\ G' = G \cup GOf(node') \cup UNION {HistPairs(s) : s \in extra}
         /\ CG' = LET have == {Key3(p) : p \in CG}
                      new == CGOf(node') \cup UNION {CommittedOf(s) : s \in extra}
                  IN CG \cup {p \in new : Key3(p) \notin have}
         /\ elected' = elected \cup ElectedOf(node')
         /\ granted' = granted \cup GrantedOf(node') \cup GrantsOnWire
         /\ maxTerm' = [n \in Nodes |-> IF node'[n].alive /\ node'[n].term > maxTerm[n] THEN node'[n].term ELSE maxTerm[n]]
         /\ ackIdx' = [n \in Nodes |->
               IF ~node'[n].alive THEN ackIdx[n]
               ELSE MaxOf({ackIdx[n]} \cup AckOf(n))]
         /\ reapply' = [n \in Nodes |->
               IF ~node'[n].alive THEN 0
               ELSE IF ~node[n].alive /\ Journal THEN Last(node'[n].log).idx          \* just restarted from its journal
               ELSE IF node'[n].applied >= reapply[n] THEN 0 ELSE reapply[n]]
         /\ subm' = LET new == {<<n, k>> \in Nodes \X (1..64) :
                                    /\ node'[n].alive /\ node[n].alive /\ k <= Len(node'[n].queue) /\ k > Len(node[n].queue)
                                    /\ node'[n].queue[k].cb.k = "cb" /\ node'[n].queue[k].cb.cid \in VersionedCids}
                     ids == {node'[p[1]].queue[p[2]].cb.cid : p \in new}
                 IN [c \in DOMAIN subm \cup ids |->
                        IF c \in DOMAIN subm THEN subm[c]
                        ELSE LET p == CHOOSE q \in new : node'[q[1]].queue[q[2]].cb.cid = c IN node[p[1]].ver]
         /\ preCrash' = [n \in Nodes |->
               IF node[n].alive /\ ~node'[n].alive
               THEN LET kx == {s \in extra : s.n = n}        \* killed in the middle of this step: what it had reached
                    IN
                    [has |-> TRUE, log |-> node[n].log,
                     klog |-> IF kx # {} THEN (CHOOSE s \in kx : TRUE).log ELSE <<>>,
                     \* success replies it put on the wire in the very step it died in count as acknowledgements too
                     ack |-> MaxOf({ackIdx[n]} \cup (IF kx # {} THEN AckSent(n) ELSE {})),
                     \* term and vote it had made known before the step it died in
                     term |-> node[n].term, votedFor |-> node[n].votedFor, inside |-> (kx # {}),
                     \* the process died in a tick of its own that had a finished serialization to acknowledge
                     trimming |-> (lastTick' = n /\ (node[n].serPid = -1 \/ (node[n].serPid = 1 /\ node[n].child.st = "ok"))),
                     jlog |-> IF "disk" \in DOMAIN node'[n] THEN node'[n].disk.jlog ELSE <<>>]
               ELSE IF node'[n].alive /\ ~node'[n].needLoad THEN [has |-> FALSE]
               ELSE preCrash[n]]
GNext == GNextWith({})

-----------------------------------------------------------------------------
(* C01 *)
ApplyAgreement == \A p, q \in G : p[1] = q[1] => p[2] = q[2]
(* the object state of a node is exactly the commands of the common sequence up to its applied index *)
StateIsPrefixFold ==
  \A n \in Nodes : Live(n) =>
     LET s == node[n] IN
     /\ \A k \in 1..Len(s.hist) : s.hist[k][1] <= s.applied
     /\ \A k \in 1..(Len(s.hist) - 1) : s.hist[k][1] < s.hist[k + 1][1]
     /\ \A p \in G : p[1] <= s.applied => p \in HistPairs(s)

(* C02 *)
FailureCodes == {QUEUE_FULL, MISSING_LEADER, NOT_LEADER, REQUEST_DENIED, DISCARDED}
CallbackAtMostOnce == \A c \in DOMAIN cbs : Len(cbs[c]) <= 1
SuccessMeansCommittedOnce ==
  \A c \in DOMAIN cbs : \A k \in 1..Len(cbs[c]) :
     (cbs[c][k][2] = SUCCESS /\ c \notin SpecialCids) =>
        /\ c \notin Raisers => \E p \in G : p[2] = c /\ cbs[c][k][1] = Cardinality({q \in G : q[1] <= p[1]})
        /\ \E p \in CG : p[3] = c
FailureMeansNeverApplied ==
  \A c \in DOMAIN cbs : \A k \in 1..Len(cbs[c]) :
     cbs[c][k][2] \in FailureCodes => ~\E p \in G : p[2] = c
AtMostOnceApplied == \A p, q \in G : (p[2] = q[2] /\ ~Repeatable(p[2])) => p[1] = q[1]

(* C03 *)
ElectionSafety == \A a, b \in elected : a[1] = b[1] => a[2] = b[2]
OneVotePerTerm == \A a, b \in granted : (a[1] = b[1] /\ a[2] = b[2]) => a[3] = b[3]

(* C07: a journaled node never falls back to a term older than one it already acknowledged *)
NoOlderTerm == Journal => \A n \in Nodes : Live(n) => node[n].term >= maxTerm[n]

(* C04 *)
CommittedStable == \A p, q \in CG : p[1] = q[1] => Key3(p) = Key3(q)
(* positional access; LogContiguous makes it meaningful *)
EntryAt(s, i) == s.log[i - s.log[1].idx + 1]
LogContiguous == \A n \in Nodes : Live(n) => \A k \in 1..Len(node[n].log) : node[n].log[k].idx = node[n].log[1].idx + k - 1
LogMatching ==
  \A a, b \in Nodes : (Live(a) /\ Live(b) /\ a # b) =>
    LET sa == node[a]  sb == node[b]
        lo == Max(sa.log[1].idx, sb.log[1].idx)
        hi == Min(Last(sa.log).idx, Last(sb.log).idx)
        M == {i \in lo..hi : EntryAt(sa, i).term = EntryAt(sb, i).term}
    IN \A i \in M : \A i2 \in lo..i : EntryAt(sa, i2) = EntryAt(sb, i2)
(* (a restarted node reads a commit index from .meta that may lag behind the snapshot it loads) *)
CommittedNotBeyondLog == Journal \/ \A n \in Nodes : Live(n) => node[n].applied <= node[n].commit
NoEscape == nexc = 0

(* C09 *)
SnapshotAtPosition ==
  \A sid \in DOMAIN snaps :
     LET c == snaps[sid] IN
     /\ {<<c.hist[k][1], c.hist[k][2]>> : k \in 1..Len(c.hist)} = {p \in G : p[1] <= c.last.idx}
     /\ c.prev.idx + 1 = c.last.idx
     /\ \E p \in CG : p[1] = c.last.idx /\ p[2] = c.last.term /\ p[3] = c.last.cmd
(* a node never ends up holding a blob that is not one complete snapshot (torn transfer / torn dump file) *)
TransferIntegrity == \A n \in Nodes : Live(n) => node[n].snap # "garbage"
(* what a node holds after compaction / installation is consistent with its own log and state *)
HeldSnapshotConsistent ==
  \A n \in Nodes : (Live(n) /\ ~node[n].needLoad /\ node[n].snap \in DOMAIN snaps) =>
     LET c == snaps[node[n].snap] IN c.last.idx <= node[n].applied

(* after compaction a node can still bring a lagging follower up to date: whatever it cut off the head of its log is *)
(* covered by the complete snapshot it holds (in memory or as its dump file), and the log continues that snapshot     *)
CompactedPrefixCovered ==
  \A n \in Nodes : (Live(n) /\ ~node[n].needLoad /\ Len(node[n].log) > 0 /\ node[n].log[1].idx > 1) =>
     /\ node[n].snap \in DOMAIN snaps
     /\ snaps[node[n].snap].last.idx >= node[n].log[1].idx

(* C12: a raising command is passed over by every replica: whoever has applied past its position holds *)
(* every later regular command of the common sequence (covered by StateIsPrefixFold), its callback fires *)
(* once (CallbackAtMostOnce), nothing escapes the entry points (NoEscape), and a tick that starts with  *)
(* committed-but-unapplied entries applies them (ApplyProgress, step formula).                           *)

(* C10 *)
UncommittedMemb(s) == {k \in 1..Len(s.log) : s.log[k].idx > s.commit /\ IsMemb(s.log[k].cmd)}
(* a leader never has two membership changes in flight, nor one before its own no-op is applied *)
OneChangeAtATime ==
  \A n \in Nodes : (Live(n) /\ node[n].role = "L") =>
     /\ Cardinality(UncommittedMemb(node[n])) <= 1
     \* (the position of its own no-op is read off the log - the first entry of its term -, not from its bookkeeping)
     /\ \A k \in UncommittedMemb(node[n]) :
           (node[n].log[k].term = node[n].term) =>
              LET own == {j \in 1..Len(node[n].log) : node[n].log[j].term = node[n].term}
                  first == CHOOSE j \in own : \A i \in own : j <= i
              IN /\ node[n].log[k].idx > node[n].log[first].idx
                 /\ node[n].applied >= node[n].log[first].idx
RECURSIVE FoldView(_, _, _)
FoldView(view, n, es) ==
  IF es = <<>> THEN view
  ELSE LET r == MembReq(Head(es).cmd)
           v1 == IF r.k = "add" /\ r.v # n THEN view \cup {r.v}
                 ELSE IF r.k = "rem" /\ r.v # n THEN view \ {r.v} ELSE view
       IN FoldView(v1, n, Tail(es))
(* the member view of a node equals the configuration defined by the membership entries in its log *)
ViewBadLog == IF ~Membership THEN {}
              ELSE {n \in Voters0 : Live(n) /\ node[n].log[1].idx = 1 /\ node[n].others # FoldView(Voters0 \ {n}, n, node[n].log)}
(* a node whose log starts at the snapshot it holds: the member set restored from the snapshot + the entries after it *)
ViewBadSnap == IF ~Membership THEN {}
               ELSE {n \in Nodes : Live(n) /\ ~node[n].needLoad /\ node[n].snap \in DOMAIN snaps /\ Len(node[n].log) >= 2
                      /\ node[n].log[1] = snaps[node[n].snap].prev /\ node[n].log[2] = snaps[node[n].snap].last
                      /\ node[n].others # FoldView(snaps[node[n].snap].cluster \ {n}, n, SubSeq(node[n].log, 3, Len(node[n].log)))}
ViewBad == ViewBadLog \cup ViewBadSnap
(* signature of known finding KF6: the snapshot was serialised while membership entries beyond its position were in the log *)
AheadSig(n) == n \in ViewBadSnap /\ snaps[node[n].snap].ahead
(* signature of known finding KF1 (known_findings.json): the log holds two membership entries of opposite *)
(* kind about the same node; applying the earlier one again (apply-time re-application) undoes the later *)
ReapplySig(n) ==
  \E i, j \in 1..Len(node[n].log) :
     /\ i < j /\ IsMemb(node[n].log[i].cmd) /\ IsMemb(node[n].log[j].cmd)
     /\ MembReq(node[n].log[i].cmd).v = MembReq(node[n].log[j].cmd).v
     /\ MembReq(node[n].log[i].cmd).k # MembReq(node[n].log[j].cmd).k
ViewFromLog == ViewBad = {}
(* removal committed and not followed by a committed re-add *)
RemovedCommitted(v) ==
  \E p \in CG : /\ p[3] = RemCmd(v)
                 /\ ~\E q \in CG : q[3] = AddCmd(v) /\ q[1] > p[1]

(* C17 *)
HistTriples(s) == {<<s.hist[k][1], s.hist[k][2], s.hist[k][3]>> : k \in 1..Len(s.hist)}
(* every replica executes the same implementation for an entry *)
SameMethodEverywhere ==
  \A a, b \in Nodes : (Live(a) /\ Live(b)) =>
     \A x \in HistTriples(node[a]), y \in HistTriples(node[b]) : (x[1] = y[1] /\ x[2] = y[2]) => x[3] = y[3]
(* The test class provides implementations of the versioned method for the versions in ImplVers; the enabled version *)
(* may be any number up to the highest one the node's code has.                                                       *)
ImplVers == {0, 2, 11}
MaxVer == 11
Resolve(v) == MaxOf({i \in ImplVers : i <= v})
VerCmd(k) == "ver:" \o ToString(k)
IsVerCmd(c) == \E k \in 0..(MaxVer + 3) : c = VerCmd(k)
VerOf(c) == CHOOSE k \in 0..(MaxVer + 3) : c = VerCmd(k)
(* a versioned call executes the newest implementation not above the version enabled at the caller when it was made *)
CallUsesEnabledVersion ==
  \A n \in Nodes : Live(n) =>
     \A x \in HistTriples(node[n]) : (x[2] \in DOMAIN subm) => x[3] = Resolve(subm[x[2]])
(* the method-name table a node resolves calls with is the one of its enabled version *)
NameTableMatchesVersion == \A n \in Nodes : (Live(n) /\ ~node[n].needLoad) => node[n].names = Resolve(node[n].ver)
(* a node's enabled version is the highest one switched to in the prefix it has applied (a switch to a lower version *)
(* than the enabled one is refused when it is applied) - also after a restart or a snapshot installation that       *)
(* skipped the switch entries themselves                                                                             *)
SwitchesUpTo(i) == {p \in CG : p[1] <= i /\ IsVerCmd(p[3])}
ExpectedVer(i) == MaxOf({0} \cup {VerOf(p[3]) : p \in SwitchesUpTo(i)})
VersionFromLog ==
  \A n \in Nodes : (Live(n) /\ ~node[n].needLoad) => node[n].ver = ExpectedVer(node[n].applied)
(* a node whose code lacks an enabled version does not apply the switch nor anything after it *)
LackingNodeStops ==
  \A n \in Nodes : Live(n) =>
     \A i \in 1..Len(node[n].log) :
        (\E k \in 0..(MaxVer + 3) : k > node[n].codeVer /\ node[n].log[i].cmd = VerCmd(k)) => node[n].applied < node[n].log[i].idx
(* only supported versions ever get into a log *)
SwitchValidation ==
  \A n \in Nodes : Live(n) => \A i \in 1..Len(node[n].log) : \A k \in (MaxVer + 1)..(MaxVer + 3) : node[n].log[i].cmd # VerCmd(k)

(* C18: a read-only node never votes, never stands, never leads *)
ObserverNeverVotesOrLeads ==
  /\ \A o \in Observers : Live(o) => (node[o].role = "F" /\ node[o].votedFor = Nil /\ node[o].votes = 0)
  /\ \A e \in elected : e[2] \notin Observers
  /\ \A g \in granted : g[1] \notin Observers /\ g[3] \notin Observers
  /\ \A o \in Observers : \A j \in Nodes : \A k \in 1..Len(chan[o][j]) : chan[o][j][k].t \notin {"rv", "vote"}
(* the member view of a read-only node never contains read-only nodes, and no voter counts one as a member *)
ObserversAreNotMembers == \A n \in Nodes : Live(n) => node[n].others \cap Observers = {}

(* C05: evaluated at the end of a quiet period (all links up, timely ticks, all messages delivered, an      *)
(* election timer fired whenever no leader was known): one leader, everybody follows it, commands submitted *)
(* in the quiet period succeeded, every running node has the same applied position and the same state       *)
LiveNodes == {n \in Nodes : Live(n)}
LiveVoters == {n \in LiveNodes : IsVoter(n)}
(* Q: the running nodes that enjoyed the quiet period (all of them, or all but a cut-off minority of the voters) *)
ConvergedIn(Q) ==
  LET QV == Q \cap LiveVoters
      leaders == {n \in QV : node[n].role = "L"}
      \* the precondition of the property: a majority of the members can exchange messages
      members(n) == node[n].others \cup {n}
      ok(n) == 2 * Cardinality(members(n) \cap QV) > Cardinality(members(n))
  IN (\E n \in QV : ok(n) /\ \A m \in QV : members(m) = members(n)) =>
     /\ Cardinality(leaders) = 1
     /\ \A l \in leaders :
           /\ \A n \in Q \cap (members(l) \cup Observers) : node[n].leader = l /\ node[n].term = node[l].term
           /\ \A n \in Q \cap (members(l) \cup Observers) :
                 node[n].applied = node[l].applied /\ node[n].hist = node[l].hist /\ node[n].commit = node[l].commit
           /\ node[l].commit = LastIdx(node[l])
     /\ \A c \in QuietCids : c \in DOMAIN cbs /\ \E k \in 1..Len(cbs[c]) : cbs[c][k][2] = SUCCESS
Converged == ConvergedIn(LiveNodes)

(* signature of known finding KF5: a follower whose LAST entry conflicts with the leader's log, several batches *)
(* behind: every round the leader's first batch is answered with the useful hint (retry from the conflicting    *)
(* index) but the batches sent after it in the same pass are answered with 'I miss your previous entry, send    *)
(* from my last index + 1', which overwrites the useful hint - the follower is never repaired                    *)
ResetLivelockSigIn(Q) ==
  \E l \in LiveVoters \cap Q : node[l].role = "L" /\ \E f \in (node[l].others \cup node[l].ro) \cap Q :
     LET fl == node[f].log
         ll == node[l].log
         TermIn(lg, j) == IF lg = <<>> \/ j < lg[1].idx \/ j > Last(lg).idx THEN -1 ELSE lg[j - lg[1].idx + 1].term
         \* positions at which both hold an entry, of different terms (the follower's stale tail; it may be longer than the leader's log)
         confl == {j \in FirstIdx(node[l])..LastIdx(node[l]) : TermIn(fl, j) # -1 /\ TermIn(fl, j) # TermIn(ll, j)}
     IN /\ confl # {} /\ f \in DOMAIN node[l].nextIdx
        \* ... and what the leader has from the first of them on does not fit into one append_entries message: every round the
        \* answers to the later messages (each names its own conflicting previous entry) overwrite the answer to the first
        /\ LET ci == CHOOSE j \in confl : \A k \in confl : j <= k
               p0 == ci - ll[1].idx + 1                 \* position of that index in the leader's log
               RECURSIVE SumFrom(_)
               SumFrom(q) == IF q > Len(ll) THEN 0 ELSE ll[q].sz + SumFrom(q + 1)
           IN IF UseBatch THEN SumFrom(p0) > BatchBytes ELSE Len(ll) - p0 + 1 >= 2

ResetLivelockSig == ResetLivelockSigIn(LiveNodes)

HoldsLogS(lg, e) == (\E k \in 1..Len(lg) : lg[k] = e) \/ (lg # <<>> /\ e.idx < lg[1].idx)
(* C04 (premise of the commit rule): what a leader believes a follower stores, the follower stores - as long as the     *)
(* follower has not moved on to a later term (then the leader is deposed and its beliefs no longer count)                *)
MatchIndexIsTruthS ==
  \A l \in Nodes : (Live(l) /\ node[l].role = "L" /\ node[l].log # <<>>) =>
     \A f \in DOMAIN node[l].matchIdx \cap Nodes :
        (Live(f) /\ ~node[f].needLoad /\ node[f].log # <<>> /\ node[f].term <= node[l].term /\ node[l].matchIdx[f] > 0) =>
           LET m == node[l].matchIdx[f] IN
           /\ m <= Last(node[l].log).idx
           /\ (m < node[l].log[1].idx \/ HoldsLogS(node[f].log, node[l].log[m - node[l].log[1].idx + 1]))

StateViolations ==
     (IF ApplyAgreement THEN {} ELSE {"C01.ApplyAgreement"})
\cup (IF StateIsPrefixFold THEN {} ELSE {"C01.StateIsPrefixFold"})
\cup (IF CallbackAtMostOnce THEN {} ELSE {"C02.CallbackAtMostOnce"})
\cup (IF SuccessMeansCommittedOnce THEN {} ELSE {"C02.SuccessMeansCommittedOnce"})
\cup (IF FailureMeansNeverApplied THEN {} ELSE {"C02.FailureMeansNeverApplied"})
\cup (IF AtMostOnceApplied THEN {} ELSE {"C02.AtMostOnceApplied"})
\cup (IF ElectionSafety THEN {} ELSE {"C03.ElectionSafety"})
\cup (IF OneVotePerTerm THEN {} ELSE {"C03.OneVotePerTerm", "C07.OneVotePerTerm"})
\cup (IF NoOlderTerm THEN {} ELSE {"C07.NoOlderTerm"})
\cup (IF CommittedStable THEN {} ELSE {"C04.CommittedStable"})
\cup (IF LogContiguous THEN (IF LogMatching THEN {} ELSE {"C04.LogMatching"}) ELSE {"C04.LogContiguous"})
\cup (IF CommittedNotBeyondLog THEN {} ELSE {"C04.AppliedWithinCommit"})
\cup (IF MatchIndexIsTruthS THEN {} ELSE {"C04.MatchIndexIsTruth"})
\cup (IF NoEscape THEN {} ELSE {"C12.NoEscape"})
\cup (IF SameMethodEverywhere THEN {} ELSE {"C17.SameMethodEverywhere"})
\cup (IF CallUsesEnabledVersion THEN {} ELSE {"C17.CallUsesEnabledVersion"})
\cup (IF NameTableMatchesVersion THEN {} ELSE {"C17.NameTableMatchesVersion"})
\cup (IF LackingNodeStops THEN {} ELSE {"C17.LackingNodeStops"})
\cup (IF VersionFromLog THEN {} ELSE IF UserSer THEN {"C17.VersionFromLog#KF8"} ELSE {"C17.VersionFromLog"})
\cup (IF SwitchValidation THEN {} ELSE {"C17.SwitchValidation"})
\cup (IF OneChangeAtATime THEN {} ELSE {"C10.OneChangeAtATime"})
\cup (IF ViewFromLog THEN {} ELSE IF \A n \in ViewBad : ReapplySig(n) \/ reapply[n] > 0 THEN {"C10.ViewFromLog#KF1"}
      ELSE IF \A n \in ViewBad : ReapplySig(n) \/ reapply[n] > 0 \/ AheadSig(n) THEN {"C10.ViewFromLog#KF6"} ELSE {"C10.ViewFromLog"})
\cup (IF ObserverNeverVotesOrLeads THEN {} ELSE {"C18.ObserverNeverVotesOrLeads"})
\cup (IF ObserversAreNotMembers THEN {} ELSE {"C18.ObserversAreNotMembers"})
\cup (IF SnapshotAtPosition THEN {} ELSE {"C09.SnapshotAtPosition"})
\cup (IF TransferIntegrity THEN {} ELSE {"C09.TransferIntegrity"})
\cup (IF HeldSnapshotConsistent THEN {} ELSE {"C09.HeldSnapshotConsistent"})
\cup (IF CompactedPrefixCovered THEN {} ELSE {"C09.CompactedPrefixCovered"})

-----------------------------------------------------------------------------
(* step formulas: evaluated on (unprimed, primed) *)
BothLive(n) == node[n].alive /\ node'[n].alive

(* C04: indices only advance while a node runs *)
MonotoneIndices ==
  \A n \in Nodes : BothLive(n) => (node'[n].commit >= node[n].commit /\ node'[n].applied >= node[n].applied)

(* C01: the object state only grows by appending (no rewrite of history) *)
HistAppendOnly ==
  \A n \in Nodes : BothLive(n) =>
     /\ Len(node[n].hist) <= Len(node'[n].hist)
     /\ SubSeq(node'[n].hist, 1, Len(node[n].hist)) = node[n].hist

VotersOf(nd, n) == nd[n].others \cup (IF IsVoter(n) THEN {n} ELSE {})
HoldsLog(lg, e) == \/ \E k \in 1..Len(lg) : lg[k] = e
                   \/ (lg # <<>> /\ e.idx < lg[1].idx)     \* compacted away (only applied entries are)
(* a node stores an entry in its log; a crashed journaled node in its journal file *)
Holds(s, e) == IF s.alive THEN HoldsLog(s.log, e)
               ELSE ("disk" \in DOMAIN s) /\ HoldsLog(s.disk.jlog, e)
(* C04: at the very step a commit index advances, a majority of the voters stores every newly     *)
(* committed entry, and (for a leader) the highest one carries its current term                   *)
CommitIsQuorumBacked ==
  \A n \in Nodes : (BothLive(n) /\ node'[n].commit > node[n].commit) =>
     LET s == node'[n]
         newE == {s.log[k] : k \in {k2 \in 1..Len(s.log) : s.log[k2].idx > node[n].commit /\ s.log[k2].idx <= s.commit}}
         \* the member view the decision was taken with: a tick advances the commit index before it appends
         \* (and thereby enacts) membership entries, a follower after it
         Backed(V) == \E Q \in SUBSET V : /\ 2 * Cardinality(Q) > Cardinality(V)
                                          /\ \A m \in Q : \A e \in newE : Holds(node'[m], e)
     IN /\ Backed(VotersOf(node, n)) \/ Backed(VotersOf(node', n))
        /\ (s.role = "L" /\ newE # {}) => \E e \in newE : e.idx = s.commit /\ e.term = s.term

(* C03: a node that becomes leader holds every entry ever covered by a commit index *)
LeaderCompleteness ==
  \A n \in Nodes : (node'[n].alive /\ node'[n].role = "L" /\ ~(node[n].alive /\ node[n].role = "L")) =>
     \A p \in CG : \/ p[4] >= node'[n].term          \* committed under a leader of an earlier term only
                   \/ p[1] < node'[n].log[1].idx
                   \/ \E k \in 1..Len(node'[n].log) :
                         LET e == node'[n].log[k] IN e.idx = p[1] /\ e.term = p[2] /\ e.cmd = p[3]

(* C03 / C18: a node becomes leader of term t only when a majority of the voters it knows granted it their *)
(* vote in t (votes of read-only nodes, duplicates or stale replies cannot complete a majority)              *)
ElectionQuorum ==
  \A n \in Nodes : (node'[n].alive /\ node'[n].role = "L" /\ ~(node[n].alive /\ node[n].role = "L")) =>
     LET V == VotersOf(node', n)
         t == node'[n].term
     IN 2 * Cardinality({v \in V : <<v, t, n>> \in granted'}) > Cardinality(V)

(* C10: once its removal has committed a node wins no election *)
RemovedIsInert ==
  \A n \in Nodes : (node'[n].alive /\ node'[n].role = "L" /\ ~(node[n].alive /\ node[n].role = "L")) =>
     ~RemovedCommitted(n)

(* C06: when a restarted journaled node has finished its start-up (dump loaded, journal kept or rebuilt) it *)
(* holds every committed entry it had acknowledged before it died - in its log or covered by its snapshot    *)
AckedLost(n) ==
  IF preCrash[n].has /\ node'[n].alive /\ ~node'[n].needLoad /\ node[n].alive /\ node[n].needLoad
  THEN {e \in {preCrash[n].log[k] : k \in 1..Len(preCrash[n].log)} \cup {preCrash[n].klog[k] : k \in 1..Len(preCrash[n].klog)} :
          /\ e.idx <= preCrash[n].ack /\ \E p \in CG : Key3(p) = <<e.idx, e.term, e.cmd>>
          /\ ~HoldsLog(node'[n].log, e)}
  ELSE {}
AckedDurable == \A n \in Nodes : AckedLost(n) = {}
(* signature of known finding KF2: the process was killed inside FileJournal.deleteEntriesTo (clear, then    *)
(* re-add the kept entries one by one): the journal on disk is a proper prefix of the entries that were to  *)
(* be kept after a head drop                                                                                 *)
HeadDropSig(n) ==
  LET L == preCrash[n].log
      d == preCrash[n].jlog
  IN preCrash[n].trimming /\
     \E k \in 1..Len(L) : /\ Len(d) < Len(L) - k + 1
                           /\ \A q \in 1..Len(d) : d[q] = L[k + q - 1]

(* C03: terms never decrease while a node runs *)
TermMonotone == \A n \in Nodes : BothLive(n) => node'[n].term >= node[n].term

(* C12 / C01: a tick leaves no committed entry unapplied (a node never stalls behind its commit index) *)
ApplyProgress ==
  lastTick' # Nil =>
     LET n == lastTick' IN
     BothLive(n) => node'[n].applied >= node'[n].commit
(* signature of known finding KF4: journal file without dump file - after a restart the entries compacted out *)
(* of the journal are gone and nothing can rebuild the state they produced                                     *)
NoDumpSig == Journal /\ ~DumpFile /\ lastTick' # Nil /\ node'[lastTick'].alive
             /\ node'[lastTick'].applied + 1 < node'[lastTick'].log[1].idx

(* signature of known finding KF7: a complete snapshot OLDER than the node's applied position is installed (the leader *)
(* was sent back by a stale 'reset' reply of this follower): applied index and object state move backwards             *)
InstallOlderSig(n) ==
  /\ BothLive(n) /\ node'[n].snap \in DOMAIN snaps'
  /\ snaps'[node'[n].snap].last.idx < node[n].applied
  /\ node'[n].applied = snaps'[node'[n].snap].last.idx
  /\ node'[n].log = <<snaps'[node'[n].snap].prev, snaps'[node'[n].snap].last>>
(* KF7, general form: the installed snapshot is not ahead of the follower's own log (older than its applied position, or  *)
(* only older than its last entry): the follower's log is replaced by the snapshot's two entries                           *)
InstallBehindSig(n) ==
  /\ BothLive(n) /\ node'[n].snap \in DOMAIN snaps'
  /\ node[n].log # <<>> /\ snaps'[node'[n].snap].last.idx < Last(node[n].log).idx
  /\ node'[n].log = <<snaps'[node'[n].snap].prev, snaps'[node'[n].snap].last>>
(* C04 (premise of every match index): a running node removes entries from its log only from a position at which its new *)
(* log holds a different entry (a conflict with the leader's log) - or because a snapshot covers them                       *)
TermAtIdx(lg, j) == IF lg = <<>> \/ j < lg[1].idx \/ j > Last(lg).idx THEN -1 ELSE lg[j - lg[1].idx + 1].term
Dropped(n) == {k \in 1..Len(node[n].log) : ~HoldsLog(node'[n].log, node[n].log[k])
                   /\ ~\E j \in node[n].log[1].idx..node[n].log[k].idx :
                           TermAtIdx(node[n].log, j) # -1 /\ TermAtIdx(node'[n].log, j) # -1
                           /\ TermAtIdx(node[n].log, j) # TermAtIdx(node'[n].log, j)}
(* (evaluated only on steps that do more to a log than append to it) *)
DropBad == {n \in Nodes : /\ BothLive(n) /\ node[n].log # <<>> /\ node'[n].log # <<>> /\ node'[n].log # node[n].log
                          /\ ~(Len(node'[n].log) >= Len(node[n].log) /\ SubSeq(node'[n].log, 1, Len(node[n].log)) = node[n].log)
                          /\ Dropped(n) # {}}
EntriesKeptUnlessConflict == DropBad = {}
MonoBad == {n \in Nodes : BothLive(n) /\ ~(node'[n].commit >= node[n].commit /\ node'[n].applied >= node[n].applied)}
HistBad == {n \in Nodes : BothLive(n) /\ ~(Len(node[n].hist) <= Len(node'[n].hist) /\ SubSeq(node'[n].hist, 1, Len(node[n].hist)) = node[n].hist)}

(* C07: a vote granted before the process died is still known after the restart (same term => same vote) *)
VoteSurvives ==
  \A n \in Nodes : (Journal /\ ~node[n].alive /\ node'[n].alive /\ preCrash[n].has /\ preCrash[n].votedFor # Nil
                     /\ node'[n].term = preCrash[n].term) => node'[n].votedFor = preCrash[n].votedFor
(* ... which is decided the moment the process dies between two steps: what a restart will read holds the vote *)
VoteDurableAtDeath ==
  \A n \in Nodes : (Journal /\ node[n].alive /\ ~node'[n].alive /\ "disk" \in DOMAIN node'[n] /\ node[n].votedFor # Nil
                     /\ preCrash'[n].has /\ ~preCrash'[n].inside) =>
        (node'[n].disk.term = node[n].term => node'[n].disk.votedFor = node[n].votedFor)
(* C17: requests to enable a lower version are rejected: the enabled version of a running node never goes down *)
VersionNeverLowered == \A n \in Nodes : BothLive(n) => node'[n].ver >= node[n].ver
(* C19 (and the book-keeping C02 rests on): a call with a callback that a running node holds - in its queue, among the waiters *)
(* for a commit, among the waiters for the leader's reply - stays there until its callback fires: no call is forgotten         *)
HeldCids(s) == {s.queue[k].cb.cid : k \in {k2 \in 1..Len(s.queue) : s.queue[k2].cb.k = "cb"}}
          \cup {s.wc[k].cb.cid : k \in {k2 \in 1..Len(s.wc) : s.wc[k2].cb.k = "cb"}}
          \cup {s.wr[k].cb.cid : k \in {k2 \in 1..Len(s.wr) : s.wr[k2].cb.k = "cb"}}
FiredNow(c) == c \in DOMAIN cbs' /\ (c \notin DOMAIN cbs \/ Len(cbs'[c]) > Len(cbs[c]))
NoCallForgotten == \A n \in Nodes : BothLive(n) => \A c \in HeldCids(node[n]) : c \in HeldCids(node'[n]) \/ FiredNow(c)
StepViolations ==
     (IF NoCallForgotten THEN {} ELSE {"C19.NoCallForgotten"}) \cup
     \* (an older snapshot installed over a newer state - known finding KF7 - takes the enabled version back with everything else)
     (IF VersionNeverLowered THEN {}
      ELSE IF \A n \in Nodes : (BothLive(n) /\ node'[n].ver < node[n].ver) => InstallOlderSig(n) THEN {"C17.VersionNeverLowered#KF7"}
      ELSE {"C17.VersionNeverLowered"}) \cup
     (IF VoteSurvives THEN {} ELSE {"C07.VoteSurvives"}) \cup
     (IF VoteDurableAtDeath THEN {} ELSE {"C07.VoteDurableAtDeath"}) \cup
     (IF MonotoneIndices THEN {} ELSE IF \A n \in MonoBad : InstallOlderSig(n) THEN {"C04.MonotoneIndices#KF7"} ELSE {"C04.MonotoneIndices"})
\cup (IF EntriesKeptUnlessConflict THEN {} ELSE IF \A n \in DropBad : InstallBehindSig(n) THEN {"C04.EntriesKeptUnlessConflict#KF7"} ELSE {"C04.EntriesKeptUnlessConflict"})
\cup (IF HistAppendOnly THEN {} ELSE IF \A n \in HistBad : InstallOlderSig(n) THEN {"C01.HistAppendOnly#KF7"} ELSE {"C01.HistAppendOnly"})
\cup (IF CommitIsQuorumBacked THEN {} ELSE {"C04.CommitIsQuorumBacked"})
\cup (IF LeaderCompleteness THEN {} ELSE {"C03.LeaderCompleteness"})
\cup (IF TermMonotone THEN {} ELSE {"C03.TermMonotone"})
\cup (IF ApplyProgress THEN {} ELSE IF NoDumpSig THEN {"C06.RecoveredStateProgress#KF4"} ELSE {"C12.ApplyProgress", "C06.RecoveredStateProgress"})
\cup (IF ElectionQuorum THEN {} ELSE {"C03.ElectionQuorum"})
\cup (IF RemovedIsInert THEN {} ELSE {"C10.RemovedIsInert"})
\cup (IF AckedDurable THEN {}
      ELSE IF \A n \in Nodes : AckedLost(n) # {} => HeadDropSig(n) THEN {"C06.AckedDurable#KF2"} ELSE {"C06.AckedDurable"})
=============================================================================

-------------------------------- MODULE Props --------------------------------
(***************************************************************************)
(* The listed properties (properties.jsonl, C01..) as TLA+ formulas over    *)
(* Core's state plus history ("ghost") variables that are computed from the *)
(* state alone - never guessed by the harness.  The same definitions are    *)
(* used (a) as invariants / action properties when TLC explores Core, and   *)
(* (b) by CoreTrace on every state and step a real cluster went through.    *)
(*                                                                         *)
(* StateViolations : names of the state formulas false in this state        *)
(* StepViolations  : names of the step formulas false on (this, next)       *)
(***************************************************************************)
EXTENDS Core

VARIABLES
  G,        \* set of <<position, command id>> : executed by some node's state machine at some time
  CG,       \* set of <<position, term, command id, tc>> : entry covered by some node's commit index at some
            \* time; tc = that node's term when the entry was first seen covered
  elected,  \* set of <<term, node>> : node was leader in term at some time
  granted   \* set of <<voter, term, candidate>> : voter's votedFor was candidate in term at some time

gvars == <<G, CG, elected, granted>>

Live(n) == node[n].alive
IsVoter(n) == n \in Voters0

HistPairs(s) == {<<s.hist[k][1], s.hist[k][2]>> : k \in 1..Len(s.hist)}
CommittedOf(s) == {<<s.log[k].idx, s.log[k].term, s.log[k].cmd, s.term>> : k \in {k2 \in 1..Len(s.log) : s.log[k2].idx <= s.commit}}
Key3(p) == <<p[1], p[2], p[3]>>

GOf(nd) == UNION {HistPairs(nd[n]) : n \in {m \in Nodes : nd[m].alive}}
CGOf(nd) == UNION {CommittedOf(nd[n]) : n \in {m \in Nodes : nd[m].alive}}
ElectedOf(nd) == {<<nd[n].term, n>> : n \in {m \in Nodes : nd[m].alive /\ nd[m].role = "L"}}
GrantedOf(nd) == {<<n, nd[n].term, nd[n].votedFor>> : n \in {m \in Nodes : nd[m].alive /\ nd[m].votedFor # Nil}}

GInit == /\ G = GOf(node) /\ CG = {<<1, 0, NoopCmd, 0>>} /\ elected = ElectedOf(node) /\ granted = GrantedOf(node)
GNext == /\ G' = G \cup GOf(node')
         /\ CG' = LET have == {Key3(p) : p \in CG} IN CG \cup {p \in CGOf(node') : Key3(p) \notin have}
         /\ elected' = elected \cup ElectedOf(node')
         /\ granted' = granted \cup GrantedOf(node')

-----------------------------------------------------------------------------
(* C01 *)
ApplyAgreement == \A p, q \in G : p[1] = q[1] => p[2] = q[2]
(* the object state of a node is exactly the commands of the common sequence up to its applied index *)
StateIsPrefixFold ==
  \A n \in Nodes : Live(n) =>
     LET s == node[n] IN
     /\ \A k \in 1..Len(s.hist) : s.hist[k][1] <= s.applied
     /\ \A k \in 1..(Len(s.hist) - 1) : s.hist[k][1] < s.hist[k + 1][1]
     /\ \A p \in G : p[1] <= s.applied => p \in HistPairs(s)

(* C02 *)
FailureCodes == {QUEUE_FULL, MISSING_LEADER, NOT_LEADER, REQUEST_DENIED, DISCARDED}
CallbackAtMostOnce == \A c \in DOMAIN cbs : Len(cbs[c]) <= 1
SuccessMeansCommittedOnce ==
  \A c \in DOMAIN cbs : \A k \in 1..Len(cbs[c]) :
     (cbs[c][k][2] = SUCCESS /\ c \notin SpecialCids) =>
        /\ \E p \in G : p[2] = c /\ cbs[c][k][1] = Cardinality({q \in G : q[1] <= p[1]})
        /\ \E p \in CG : p[3] = c
FailureMeansNeverApplied ==
  \A c \in DOMAIN cbs : \A k \in 1..Len(cbs[c]) :
     cbs[c][k][2] \in FailureCodes => ~\E p \in G : p[2] = c
AtMostOnceApplied == \A p, q \in G : p[2] = q[2] => p[1] = q[1]

(* C03 *)
ElectionSafety == \A a, b \in elected : a[1] = b[1] => a[2] = b[2]
OneVotePerTerm == \A a, b \in granted : (a[1] = b[1] /\ a[2] = b[2]) => a[3] = b[3]

(* C04 *)
CommittedStable == \A p, q \in CG : p[1] = q[1] => Key3(p) = Key3(q)
(* positional access; LogContiguous makes it meaningful *)
EntryAt(s, i) == s.log[i - s.log[1].idx + 1]
LogContiguous == \A n \in Nodes : Live(n) => \A k \in 1..Len(node[n].log) : node[n].log[k].idx = node[n].log[1].idx + k - 1
LogMatching ==
  \A a, b \in Nodes : (Live(a) /\ Live(b) /\ a # b) =>
    LET sa == node[a]  sb == node[b]
        lo == Max(sa.log[1].idx, sb.log[1].idx)
        hi == Min(Last(sa.log).idx, Last(sb.log).idx)
        M == {i \in lo..hi : EntryAt(sa, i).term = EntryAt(sb, i).term}
    IN \A i \in M : \A i2 \in lo..i : EntryAt(sa, i2) = EntryAt(sb, i2)
CommittedNotBeyondLog == \A n \in Nodes : Live(n) => node[n].applied <= node[n].commit
NoEscape == nexc = 0

StateViolations ==
     (IF ApplyAgreement THEN {} ELSE {"C01.ApplyAgreement"})
\cup (IF StateIsPrefixFold THEN {} ELSE {"C01.StateIsPrefixFold"})
\cup (IF CallbackAtMostOnce THEN {} ELSE {"C02.CallbackAtMostOnce"})
\cup (IF SuccessMeansCommittedOnce THEN {} ELSE {"C02.SuccessMeansCommittedOnce"})
\cup (IF FailureMeansNeverApplied THEN {} ELSE {"C02.FailureMeansNeverApplied"})
\cup (IF AtMostOnceApplied THEN {} ELSE {"C02.AtMostOnceApplied"})
\cup (IF ElectionSafety THEN {} ELSE {"C03.ElectionSafety"})
\cup (IF OneVotePerTerm THEN {} ELSE {"C03.OneVotePerTerm"})
\cup (IF CommittedStable THEN {} ELSE {"C04.CommittedStable"})
\cup (IF LogContiguous THEN (IF LogMatching THEN {} ELSE {"C04.LogMatching"}) ELSE {"C04.LogContiguous"})
\cup (IF CommittedNotBeyondLog THEN {} ELSE {"C04.AppliedWithinCommit"})
\cup (IF NoEscape THEN {} ELSE {"C12.NoEscape"})

-----------------------------------------------------------------------------
(* step formulas: evaluated on (unprimed, primed) *)
BothLive(n) == node[n].alive /\ node'[n].alive

(* C04: indices only advance while a node runs *)
MonotoneIndices ==
  \A n \in Nodes : BothLive(n) => (node'[n].commit >= node[n].commit /\ node'[n].applied >= node[n].applied)

(* C01: the object state only grows by appending (no rewrite of history) *)
HistAppendOnly ==
  \A n \in Nodes : BothLive(n) =>
     /\ Len(node[n].hist) <= Len(node'[n].hist)
     /\ SubSeq(node'[n].hist, 1, Len(node[n].hist)) = node[n].hist

VotersOf(nd, n) == nd[n].others \cup (IF IsVoter(n) THEN {n} ELSE {})
Holds(s, e) == \/ \E k \in 1..Len(s.log) : s.log[k] = e
               \/ e.idx < s.log[1].idx          \* compacted away (only applied entries are)
(* C04: at the very step a commit index advances, a majority of the voters stores every newly     *)
(* committed entry, and (for a leader) the highest one carries its current term                   *)
CommitIsQuorumBacked ==
  \A n \in Nodes : (BothLive(n) /\ node'[n].commit > node[n].commit) =>
     LET s == node'[n]
         newE == {s.log[k] : k \in {k2 \in 1..Len(s.log) : s.log[k2].idx > node[n].commit /\ s.log[k2].idx <= s.commit}}
         V == VotersOf(node', n)
     IN /\ \E Q \in SUBSET V : /\ 2 * Cardinality(Q) > Cardinality(V)
                               /\ \A m \in Q : node'[m].alive /\ \A e \in newE : Holds(node'[m], e)
        /\ (s.role = "L" /\ newE # {}) => \E e \in newE : e.idx = s.commit /\ e.term = s.term

(* C03: a node that becomes leader holds every entry ever covered by a commit index *)
LeaderCompleteness ==
  \A n \in Nodes : (node'[n].alive /\ node'[n].role = "L" /\ ~(node[n].alive /\ node[n].role = "L")) =>
     \A p \in CG : \/ p[4] >= node'[n].term          \* committed under a leader of an earlier term only
                   \/ p[1] < node'[n].log[1].idx
                   \/ \E k \in 1..Len(node'[n].log) :
                         LET e == node'[n].log[k] IN e.idx = p[1] /\ e.term = p[2] /\ e.cmd = p[3]

(* C03: terms never decrease while a node runs *)
TermMonotone == \A n \in Nodes : BothLive(n) => node'[n].term >= node[n].term

StepViolations ==
     (IF MonotoneIndices THEN {} ELSE {"C04.MonotoneIndices"})
\cup (IF HistAppendOnly THEN {} ELSE {"C01.HistAppendOnly"})
\cup (IF CommitIsQuorumBacked THEN {} ELSE {"C04.CommitIsQuorumBacked"})
\cup (IF LeaderCompleteness THEN {} ELSE {"C03.LeaderCompleteness"})
\cup (IF TermMonotone THEN {} ELSE {"C03.TermMonotone"})
=============================================================================

------------------------------ MODULE Threads ------------------------------
(***************************************************************************)
(* Application threads calling replicated methods on one node while the    *)
(* node's own thread runs the protocol (C19): pysyncobj/fast_queue.py,     *)
(* SyncObj._applyCommand / _checkCommandsToApply, the `replicated`         *)
(* decorator with sync=True and AsyncResult.                               *)
(* Grain: one step per critical section (FastQueue.put_nowait and          *)
(* get_nowait hold the queue's lock) and per write of AsyncResult          *)
(* (result, error, event are written one after the other by the tick       *)
(* thread and read by the waiting caller after event.wait).  Replication   *)
(* is abstracted: the tick thread applies dequeued commands in order, or   *)
(* fails them with a reason.                                               *)
(***************************************************************************)
EXTENDS Naturals, Integers, Sequences, FiniteSets, TLC

CONSTANTS Callers, Calls, QMax      \* caller threads, calls per caller, commandsQueueSize

Cmd == Callers \X (1..Calls)
VARIABLES pc, k, queue, applied, ares, cbcount, ret, tpc, cur
vars == <<pc, k, queue, applied, ares, cbcount, ret, tpc, cur>>
(* pc[c]: "idle" | "put" | "wait" | "read" | "done";  k[c]: number of the current call                         *)
(* ares[cmd] = [result, error, event]: the AsyncResult of the call; ret[cmd]: what the sync call returned / raised *)
(* tpc: the tick thread: "get" | "res" | "err" | "evt"; cur: the command whose callback it is running             *)

None == <<"none">>
NoErr == "None"
Init == /\ pc = [c \in Callers |-> "idle"] /\ k = [c \in Callers |-> 0] /\ queue = <<>> /\ applied = <<>>
        /\ ares = [m \in Cmd |-> [result |-> None, error |-> NoErr, event |-> FALSE]]
        /\ cbcount = [m \in Cmd |-> 0] /\ ret = [m \in Cmd |-> None] /\ tpc = "get" /\ cur = [m |-> <<"none", 0>>, res |-> None, err |-> NoErr]

Me(c) == <<c, k[c]>>
Start(c) == pc[c] = "idle" /\ k[c] < Calls /\ k' = [k EXCEPT ![c] = @ + 1] /\ pc' = [pc EXCEPT ![c] = "put"]
            /\ UNCHANGED <<queue, applied, ares, cbcount, ret, tpc, cur>>

(* FastQueue.put_nowait under the queue lock; Queue.Full -> the error callback runs in the caller's thread *)
Put(c) ==
  /\ pc[c] = "put"
  /\ IF Len(queue) > QMax
     THEN /\ ares' = [ares EXCEPT ![Me(c)] = [result |-> None, error |-> "QUEUE_FULL", event |-> TRUE]]
          /\ cbcount' = [cbcount EXCEPT ![Me(c)] = @ + 1] /\ queue' = queue
     ELSE /\ queue' = Append(queue, Me(c)) /\ UNCHANGED <<ares, cbcount>>
  /\ pc' = [pc EXCEPT ![c] = "wait"]
  /\ UNCHANGED <<k, applied, ret, tpc, cur>>

(* event.wait(timeout): either the event is set, or the timeout expires first *)
Wake(c) == pc[c] = "wait" /\ ares[Me(c)].event /\ pc' = [pc EXCEPT ![c] = "read"]
           /\ UNCHANGED <<k, queue, applied, ares, cbcount, ret, tpc, cur>>
Timeout(c) == pc[c] = "wait" /\ ~ares[Me(c)].event /\ ret' = [ret EXCEPT ![Me(c)] = <<"raise", "Timeout">>]
              /\ pc' = [pc EXCEPT ![c] = "idle"] /\ UNCHANGED <<k, queue, applied, ares, cbcount, tpc, cur>>
Read(c) ==
  /\ pc[c] = "read"
  /\ ret' = [ret EXCEPT ![Me(c)] = IF ares[Me(c)].error = "SUCCESS" THEN ares[Me(c)].result ELSE <<"raise", ares[Me(c)].error>>]
  /\ pc' = [pc EXCEPT ![c] = "idle"]
  /\ UNCHANGED <<k, queue, applied, ares, cbcount, tpc, cur>>

(* the tick thread: dequeue under the lock, commit (or fail), then run the callback = three writes *)
TGet(ok) ==
  /\ tpc = "get" /\ queue # <<>>
  /\ LET m == Head(queue) IN
     /\ queue' = Tail(queue)
     /\ applied' = IF ok THEN Append(applied, m) ELSE applied
     /\ cur' = [m |-> m, res |-> IF ok THEN <<"result-of", m, Len(applied) + 1>> ELSE None,
                err |-> IF ok THEN "SUCCESS" ELSE "LEADER_CHANGED"]
  /\ tpc' = "res" /\ UNCHANGED <<pc, k, ares, cbcount, ret>>
TRes == tpc = "res" /\ ares' = [ares EXCEPT ![cur.m].result = cur.res] /\ tpc' = "err" /\ UNCHANGED <<pc, k, queue, applied, cbcount, ret, cur>>
TErr == tpc = "err" /\ ares' = [ares EXCEPT ![cur.m].error = cur.err] /\ tpc' = "evt" /\ UNCHANGED <<pc, k, queue, applied, cbcount, ret, cur>>
TEvt == tpc = "evt" /\ ares' = [ares EXCEPT ![cur.m].event = TRUE] /\ cbcount' = [cbcount EXCEPT ![cur.m] = @ + 1]
        /\ tpc' = "get" /\ UNCHANGED <<pc, k, queue, applied, ret, cur>>

Next == \/ \E c \in Callers : Start(c) \/ Put(c) \/ Wake(c) \/ Timeout(c) \/ Read(c)
        \/ \E ok \in BOOLEAN : TGet(ok)
        \/ TRes \/ TErr \/ TEvt
Spec == Init /\ [][Next]_vars

(* ---- C19 ---- *)
SeqToSet(q) == {q[i] : i \in 1..Len(q)}
AppliedOnce == \A i, j \in 1..Len(applied) : applied[i] = applied[j] => i = j
CallbackOnce == \A m \in Cmd : cbcount[m] <= 1
(* a sync call returns the result of its own command, or raises its own failure reason or 'Timeout' *)
OwnResult ==
  \A m \in Cmd : ret[m] # None =>
     \/ ret[m] = <<"raise", "Timeout">>
     \/ \E p \in 1..Len(applied) : applied[p] = m /\ ret[m] = <<"result-of", m, p>>
     \/ ret[m] \in {<<"raise", "QUEUE_FULL">>, <<"raise", "LEADER_CHANGED">>}
(* a call reported as failed with QUEUE_FULL was never applied; a returned value implies applied *)
FailedNotApplied == \A m \in Cmd : ret[m] = <<"raise", "QUEUE_FULL">> => m \notin SeqToSet(applied)
=============================================================================

---------------------------- MODULE ThreadsTrace ----------------------------
(* Event logs of real threads calling a real auto-tick SyncObj (events ordered by a sequence number taken under the    *)
(* lock that serialises the logged critical sections) folded into the variables of Threads; the queue discipline is    *)
(* compared with the specification's guards and the C19 formulas are evaluated after every event.                     *)
EXTENDS Threads, Json, IOUtils, TLCExt
Batch == JsonDeserialize(IOEnv.TRACE_FILE)
Traces == Batch.traces
VARIABLES tid, l
tvars == <<vars, tid, l>>
Steps(t) == Traces[t].steps
TInit == Init /\ tid \in 1..Len(Traces) /\ l = 1
M(e) == <<e.c, e.k>>
TNext ==
  /\ l <= Len(Steps(tid)) /\ l' = l + 1 /\ tid' = tid
  /\ LET e == Steps(tid)[l]
         qm == Traces[tid].qmax
         \* episodes in which the harness does not serialise the queue operations itself: the order of the logged puts and gets
         \* is then not the order inside the queue, which is compared as a bag
         racy == Traces[tid].racy
     IN
     /\ CASE e.ev = "put" ->
              /\ queue' = IF e.ok THEN Append(queue, M(e)) ELSE queue
              /\ (~racy /\ ((e.ok /\ Len(queue) > qm) \/ (~e.ok /\ Len(queue) <= qm))) => PrintT(<<"DRIFT", tid, l, <<"put">>, {"queue-limit"}>>)
              /\ UNCHANGED <<applied, cbcount, ret>>
          [] e.ev = "get" ->
              /\ queue' = IF racy THEN SelectSeq(queue, LAMBDA m : m # M(e)) ELSE IF queue # <<>> THEN Tail(queue) ELSE queue
              /\ (~racy /\ (queue = <<>> \/ Head(queue) # M(e))) => PrintT(<<"DRIFT", tid, l, <<"get">>, {"fifo"}>>)
              /\ UNCHANGED <<applied, cbcount, ret>>
          [] e.ev = "apply" -> applied' = Append(applied, M(e)) /\ UNCHANGED <<queue, cbcount, ret>>
          [] e.ev = "cb" -> cbcount' = [cbcount EXCEPT ![M(e)] = @ + 1] /\ UNCHANGED <<queue, applied, ret>>
          [] e.ev = "ret" ->
              /\ ret' = [ret EXCEPT ![M(e)] = IF e.kind = "value" THEN <<"result-of", <<e.rc, e.rk>>, e.pos>> ELSE <<"raise", e.reason>>]
              /\ UNCHANGED <<queue, applied, cbcount>>
     /\ UNCHANGED <<pc, k, ares, tpc, cur>>
     /\ LET bad == (IF AppliedOnce' THEN {} ELSE {"C19.AppliedOnce"})
                   \cup (IF CallbackOnce' THEN {} ELSE {"C19.CallbackOnce"})
                   \cup (IF OwnResult' THEN {} ELSE {"C19.OwnResult"})
                   \cup (IF FailedNotApplied' THEN {} ELSE {"C19.FailedNotApplied"})
        IN (bad # {}) => PrintT(<<"VIOL", tid, l, <<e.ev>>, bad>>)
     /\ (l = Len(Steps(tid))) =>
           /\ PrintT(<<"DONE", tid, 0, 0>>)
           \* at the end of an episode (all threads joined, queue drained): every call was applied once or reported failed
           /\ (\E m \in Cmd : m[2] <= Traces[tid].calls /\ m \notin SeqToSet(applied') /\ ret'[m] \notin {<<"raise", "QUEUE_FULL">>, <<"raise", "Timeout">>, <<"raise", "LEADER_CHANGED">>, <<"raise", "MISSING_LEADER">>})
                 => PrintT(<<"VIOL", tid, l, <<"end">>, {"C19.AppliedOrFailed"}>>)
           \* ... and no call that was accepted into the queue of this (healthy, single-node) leader got lost on the way
           /\ (\E m \in Cmd : m[2] <= Traces[tid].calls /\ m \notin SeqToSet(applied')
                               /\ \E i \in 1..Len(Steps(tid)) : Steps(tid)[i].ev = "put" /\ Steps(tid)[i].ok /\ M(Steps(tid)[i]) = m)
                 => PrintT(<<"VIOL", tid, l, <<"end">>, {"C19.AcceptedNotLost"}>>)
TSpec == TInit /\ [][TNext]_tvars
=============================================================================

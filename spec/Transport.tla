------------------------------ MODULE Transport ------------------------------
(***************************************************************************)
(* pysyncobj/transport.py (TCPTransport) for one pair of members i < j     *)
(* (C14).  The member with the larger address (j) dials; it owns one       *)
(* persistent outgoing connection object that is re-used for every         *)
(* attempt.  The acceptor (i) registers whatever incoming connection last  *)
(* introduced itself as j (replacing an older one without closing it).     *)
(* A side drops its connection when the socket reports an error / end of   *)
(* file, or when nothing was read for connectionTimeout (checked on poll   *)
(* events and on send); the dialer retries no more often than every        *)
(* connectionRetryTime.  Kernel TCP is the environment: a connect towards  *)
(* a black-holed peer stays in progress, a reset kills both ends, data on  *)
(* a black-holed established connection vanishes silently.                 *)
(* Time is an integer clock (unit: one tick of the node).                  *)
(***************************************************************************)
EXTENDS Naturals, Integers, FiniteSets, Sequences, TLC

CONSTANTS Timeout, Retry, MaxNow, MaxConn      \* connectionTimeout, connectionRetryTime, clock bound, connections created at most

VARIABLES now, conns, dreg, areg, lastTry, path, listening, dview, aview
vars == <<now, conns, dreg, areg, lastTry, path, listening, dview, aview>>
(* dview / aview: what the raft layer of the dialer / acceptor has been told (onNodeConnected / onNodeDisconnected)   *)
(* conns: function id -> [dstate, astate, dlast, alast] : per TCP connection ever created, the state of the dialer's *)
(*   and the acceptor's socket ("syn" | "est" | "dead" | "closed") and when each side last read something            *)
(* dreg: id of the connection the dialer has as current (0 = none) with its state "connecting"/"connected"/"down"   *)
(* areg: id of the connection the acceptor has registered for the dialer (0 = none)                                  *)
(* path: the network between the two lets packets through; listening: the acceptor's server socket is bound          *)

Ids == DOMAIN conns
Init == now = 0 /\ conns = <<>> /\ dreg = [id |-> 0, st |-> "down"] /\ areg = 0 /\ lastTry = -100 /\ path = TRUE /\ listening = TRUE
        /\ dview = FALSE /\ aview = FALSE

NewId == Len(conns) + 1
(* dialer tick: (re)connect if the current connection is down and the last attempt is old enough *)
Dial ==
  /\ dreg.st = "down" /\ now - lastTry >= Retry /\ Len(conns) < MaxConn
  /\ lastTry' = now
  /\ IF path /\ ~listening
     THEN \* refused at once
          /\ conns' = Append(conns, [d |-> "dead", a |-> "closed", dl |-> now, al |-> now, s |-> FALSE]) /\ dreg' = [id |-> NewId, st |-> "connecting"]
     ELSE /\ conns' = Append(conns, [d |-> "syn", a |-> "closed", dl |-> now, al |-> now, s |-> FALSE]) /\ dreg' = [id |-> NewId, st |-> "connecting"]
  /\ UNCHANGED <<now, areg, path, listening, dview, aview>>

(* the kernel completes the handshake; the dialer learns it, says who it is; the acceptor registers the connection *)
Establish ==
  /\ dreg.id # 0 /\ conns[dreg.id].d = "syn" /\ path /\ listening
  /\ conns' = [conns EXCEPT ![dreg.id] = [@ EXCEPT !.d = "est", !.a = "est", !.dl = now, !.al = now]]
  /\ dreg' = [dreg EXCEPT !.st = "connected"]
  /\ areg' = dreg.id                         \* replaces whatever was registered (the old one is NOT closed)
  /\ dview' = TRUE /\ aview' = TRUE          \* both raft layers are told "connected"
  /\ UNCHANGED <<now, lastTry, path, listening>>

(* data flows: both sides read something (only over a live path) *)
Traffic(id) ==
  /\ conns[id].d = "est" /\ conns[id].a = "est" /\ path
  /\ conns' = [conns EXCEPT ![id] = [@ EXCEPT !.dl = now, !.al = now]]
  /\ UNCHANGED <<now, dreg, areg, lastTry, path, listening, dview, aview>>

(* a side notices: error / end of file on its socket, or read timeout *)
DialerDrops ==
  /\ dreg.id # 0 /\ dreg.st # "down"
  /\ \/ conns[dreg.id].d = "dead"
     \/ now - conns[dreg.id].dl > Timeout
  /\ dreg' = [dreg EXCEPT !.st = "down"]
  \* (the other end learns of it unless the path is down or the connection is half-open: s)
  /\ conns' = [conns EXCEPT ![dreg.id] = [@ EXCEPT !.d = "closed", !.a = IF @ = "est" /\ path /\ ~conns[dreg.id].s THEN "dead" ELSE @]]
  /\ dview' = FALSE
  /\ UNCHANGED <<now, areg, lastTry, path, listening, aview>>
AcceptorDrops(id) ==
  /\ conns[id].a \in {"est", "dead"}
  /\ \/ conns[id].a = "dead"
     \/ now - conns[id].al > Timeout
  /\ conns' = [conns EXCEPT ![id] = [@ EXCEPT !.a = "closed", !.d = IF @ = "est" /\ path /\ ~conns[id].s THEN "dead" ELSE @]]
  /\ areg' = IF areg = id THEN 0 ELSE areg
  \* only the death of the REGISTERED connection is reported; a replaced one that dies later concerns nobody
  /\ aview' = IF areg = id THEN FALSE ELSE aview
  /\ UNCHANGED <<now, dreg, lastTry, path, listening, dview>>

(* environment *)
Tick == now < MaxNow /\ now' = now + 1 /\ UNCHANGED <<conns, dreg, areg, lastTry, path, listening, dview, aview>>
Reset(id) == /\ conns[id].d \in {"est", "syn"} \/ conns[id].a = "est"
             /\ conns' = [conns EXCEPT ![id] = [@ EXCEPT !.d = IF @ \in {"est", "syn"} THEN "dead" ELSE @,
                                                          !.a = IF @ = "est" THEN "dead" ELSE @]]
             /\ UNCHANGED <<now, dreg, areg, lastTry, path, listening, dview, aview>>
(* half-open (a middlebox lost its state): the dialer's end gets an error, the acceptor's end notices nothing ... *)
HalfOpen(id) == /\ conns[id].d = "est" /\ conns[id].a = "est"
                /\ conns' = [conns EXCEPT ![id] = [@ EXCEPT !.d = "dead", !.s = TRUE]]
                /\ UNCHANGED <<now, dreg, areg, lastTry, path, listening, dview, aview>>
(* ... until much later (late FIN / RST / keep-alive) *)
LateEnd(id) == /\ conns[id].a = "est" /\ conns[id].d = "closed"
               /\ conns' = [conns EXCEPT ![id] = [@ EXCEPT !.a = "dead"]]
               /\ UNCHANGED <<now, dreg, areg, lastTry, path, listening, dview, aview>>
BlackHole == path /\ path' = FALSE /\ UNCHANGED <<now, conns, dreg, areg, lastTry, listening, dview, aview>>
Heal == ~path /\ path' = TRUE /\ UNCHANGED <<now, conns, dreg, areg, lastTry, listening, dview, aview>>
AcceptorRestarts ==       \* the acceptor process restarts: its sockets die, its registry is empty
  /\ conns' = [id \in Ids |-> [conns[id] EXCEPT !.a = "closed", !.d = IF @ = "est" /\ path THEN "dead" ELSE @]]
  /\ areg' = 0 /\ aview' = FALSE /\ UNCHANGED <<now, dreg, lastTry, path, listening, dview>>

Faults == (\E id \in Ids : Reset(id) \/ HalfOpen(id) \/ LateEnd(id)) \/ BlackHole \/ Heal \/ AcceptorRestarts
Protocol == Dial \/ Establish \/ DialerDrops \/ (\E id \in Ids : Traffic(id) \/ AcceptorDrops(id))
Next == Tick \/ Faults \/ Protocol
Spec == Init /\ [][Next]_vars

(* ---- C14 ---- *)
Working(id) == conns[id].d = "est" /\ conns[id].a = "est"
(* each side has at most one registered connection (by construction one slot each) and both slots name the same *)
(* connection whenever both consider themselves connected over live sockets                                    *)
OneWorking ==
  (dreg.st = "connected" /\ areg # 0 /\ Working(dreg.id) /\ Working(areg)) => dreg.id = areg
(* whatever a side has registered as connected is a socket that is established or whose failure it has yet to   *)
(* notice (it notices errors at the next poll event and silence after Timeout, see StaleBound)                 *)
Truthful ==
  /\ (dreg.st = "connected") => conns[dreg.id].d \in {"est", "dead"}
  /\ (areg # 0) => conns[areg].a \in {"est", "dead"}
(* a connection over which nothing was read for longer than Timeout is dropped at the next opportunity: it is   *)
(* never kept registered AND used for a successful send after that (the check runs inside send)                *)
(* connect / disconnect notifications agree with the registry at every moment *)
NotificationsMatch == dview = (dreg.st = "connected") /\ aview = (areg # 0)
NoSecondRegistration == \A id \in Ids : (id # areg /\ id # dreg.id) => TRUE
=============================================================================

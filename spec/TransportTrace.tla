--------------------------- MODULE TransportTrace ---------------------------
(* Runs of real TCPTransport objects over the scripted sockets of harness/fakesock.py: per step the registry of every   *)
(* transport and the ground truth of every simulated TCP connection are recorded; the C14 formulas are evaluated by TLC *)
(* on every recorded state and on the state after the final quiet period.                                              *)
EXTENDS Naturals, Integers, Sequences, FiniteSets, TLC, Json, IOUtils, TLCExt
Batch == JsonDeserialize(IOEnv.TRACE_FILE)
Traces == Batch.traces
VARIABLES tid, l
Steps(t) == Traces[t].steps
TInit == tid \in 1..Len(Traces) /\ l = 1
ToSet(q) == {q[k] : k \in 1..Len(q)}

(* p: one ordered pair (dialer d, acceptor a) as observed *)
BothRegisteredLive(p) == p.dstate = 2 /\ p.areg /\ p.dsock = "est" /\ p.asock = "est" /\ p.dpeer = "est" /\ p.apeer = "est"
OneWorking(e) == \A k \in 1..Len(e.pairs) : BothRegisteredLive(e.pairs[k]) => e.pairs[k].dconn = e.pairs[k].aconn
(* what a transport has registered as connected is an established socket or one whose failure it has yet to notice *)
Truthful(e) == \A k \in 1..Len(e.pairs) :
     /\ (e.pairs[k].dstate = 2) => e.pairs[k].dsock \in {"est", "err"}
     /\ (e.pairs[k].areg) => e.pairs[k].asock \in {"est", "err"}
(* a message is delivered only as coming from the member that sent it, and only from a current member *)
Authentic(e) == \A k \in 1..Len(e.delivered) : e.delivered[k].frm = e.delivered[k].sender /\ e.delivered[k].member
(* connect / disconnect notifications agree with the registry *)
NotificationsMatch(e) == \A k \in 1..Len(e.pairs) :
     /\ e.pairs[k].dview = (e.pairs[k].dstate = 2)
     /\ e.pairs[k].aview = e.pairs[k].areg
(* after the quiet period: every pair of members has exactly one working connection, both ends know, fresh messages pass *)
Converged(e) == \A k \in 1..Len(e.pairs) :
     (e.pairs[k].members) => (BothRegisteredLive(e.pairs[k]) /\ e.pairs[k].dconn = e.pairs[k].aconn
                              /\ e.pairs[k].dview /\ e.pairs[k].aview /\ e.pairs[k].pingok /\ e.pairs[k].nlive = 1)

(* a connection over which nothing arrived for longer than connectionTimeout is not kept as connected: both ends step  *)
(* (poll, send) every half second, so more than the timeout plus two seconds of silence (times in half seconds) is a miss *)
SilentDropped(e) == \A k \in 1..Len(e.pairs) : e.pairs[k].dsilent <= Traces[tid].timeout2 + 4 /\ e.pairs[k].asilent <= Traces[tid].timeout2 + 4

(* read-only nodes: a member registers one node per live read-only connection and has told its raft layer of each;  *)
(* after the quiet period every running read-only node is registered at every member                                  *)
ReadonlyRegistry(e) == \A k \in 1..Len(e.ro) : e.ro[k].reg = e.ro[k].told /\ e.ro[k].reg <= e.ro[k].live
ReadonlyConverged(e) == \A k \in 1..Len(e.ro) : e.ro[k].reg = e.ro[k].up /\ e.ro[k].told = e.ro[k].up

TNext ==
  /\ l <= Len(Steps(tid)) /\ l' = l + 1 /\ tid' = tid
  /\ LET e == Steps(tid)[l]
         bad == (IF OneWorking(e) THEN {} ELSE {"C14.OneWorking"})
                \cup (IF Truthful(e) THEN {} ELSE {"C14.Truthful"})
                \cup (IF Authentic(e) THEN {} ELSE {"C14.Authentic"})
                \cup (IF ~NotificationsMatch(e) THEN {"C14.NotificationsMatch"} ELSE {})
                \cup (IF ~SilentDropped(e) THEN {"C14.SilentConnectionDropped"} ELSE {})
                \cup (IF e.a[1] = "quiet-end" /\ ~Converged(e) THEN {"C14.EventuallyOneWorking"} ELSE {})
                \cup (IF e.a[1] \in {"settled", "quiet-end"} /\ ~ReadonlyRegistry(e) THEN {"C14.ReadonlyRegistry"} ELSE {})
                \cup (IF e.a[1] = "quiet-end" /\ ~ReadonlyConverged(e) THEN {"C14.ReadonlyConverged"} ELSE {})
                \cup (IF e.exc THEN {"C14.NoEscape"} ELSE {})
     IN /\ (bad # {}) => PrintT(<<"VIOL", tid, l, e.a, bad>>)
        /\ (l = Len(Steps(tid))) => PrintT(<<"DONE", tid, 0, 0>>)
TSpec == TInit /\ [][TNext]_<<tid, l>>
=============================================================================

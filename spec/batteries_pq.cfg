SPECIFICATION Spec
CONSTANTS
  Vals = {1, 2, 3}
  Keys = {"k1"}
  MaxLen = 7
  KindSet = {"pqueue", "queue"}
  QMax = 0
INVARIANT TypeOK
INVARIANT SortedPQ
INVARIANT Bounded
CHECK_DEADLOCK FALSE

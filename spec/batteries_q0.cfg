SPECIFICATION Spec
CONSTANTS
  Vals = {1, 2}
  Keys = {"k1", "k2"}
  MaxLen = 3
  KindSet = {"counter", "list", "dict", "set", "queue", "pqueue"}
  QMax = 0
INVARIANT TypeOK
INVARIANT SortedPQ
INVARIANT Bounded
CHECK_DEADLOCK FALSE

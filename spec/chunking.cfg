SPECIFICATION Spec
CONSTANTS
  MaxC = 24
  MaxO = 6
  MaxB = 12
INVARIANT Inv

SPECIFICATION Spec
CONSTANTS
  Followers = {"f1"}
  F = 25
  MaxNow = 80
  Steps = {0, 3, 10, 12, 30}
INVARIANT StepDownBound
PROPERTY TickExact
PROPERTY CutOffStepsDown
CHECK_DEADLOCK FALSE

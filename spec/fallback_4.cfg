SPECIFICATION Spec
CONSTANTS
  Followers = {"f1", "f2", "f3", "f4"}
  F = 25
  MaxNow = 45
  Steps = {0, 3, 10, 12, 30}
INVARIANT StepDownBound
PROPERTY TickExact
PROPERTY CutOffStepsDown
CHECK_DEADLOCK FALSE

SPECIFICATION Spec
CONSTANTS
  Scenario = "bad"
  MaxStep = 6
INVARIANT DeliveredInOrder
INVARIANT NothingFromInvalid
INVARIANT InvalidFrameDisconnects
INVARIANT DisconnectOnce
CHECK_DEADLOCK FALSE

SPECIFICATION Spec
CONSTANTS
  Scenario = "ok"
  MaxStep = 6
INVARIANT DeliveredInOrder
INVARIANT NothingFromInvalid
INVARIANT InvalidFrameDisconnects
INVARIANT DisconnectOnce
CHECK_DEADLOCK FALSE

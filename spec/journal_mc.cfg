SPECIFICATION Spec
CONSTANTS
  Sizes = {0, 30, 1000, 2500}
  InitSize = 1024
  MaxOps = 5
  MaxLen = 4
  Commits = {2, 3}
INVARIANT SameAsList
INVARIANT CommitIndexWasSet
INVARIANT KillSafeModuloKF2
INVARIANT NoException
INVARIANT MetaOldOrNew
CHECK_DEADLOCK FALSE

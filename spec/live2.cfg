SPECIFICATION LiveSpec
CONSTANTS
  Nodes = {"a","b"}
  Voters0 = {"a","b"}
  Observers = {}
  Nil = "Nil"
  BatchBytes = 50
  UseBatch = TRUE
  WaitLeader = TRUE
  QueueSize = 10
  SpecialCids = {}
  Journal = FALSE
  Fork = FALSE
  UserSer = FALSE
  DumpFile = FALSE
  VersionedCids = {}
  QuietCids = {}
  Raisers = {}
  Conform = TRUE
  InitConnected = TRUE
  Membership = FALSE
  CompactMin = 1000000
  SnapChunk = 65536
  Cmds = {"c1"}
  CmdSize = 40
  MaxTerm = 2
  MaxLog = 5
  MaxChan = 2
  MaxFaults = 0
  Electors = {"a"}
  SubmitAt = {"a","b"}
  Advs0 = {"z","h","j"}
  SnapSize = 100
  Compactors = {}
  FaultPairs = {{"a","b"},{"a","c"},{"b","c"},{"a","d"},{"b","d"},{"c","d"},{"a","e"},{"b","e"},{"c","e"},{"d","e"}}
  Isolated0 = {}
  MembCids = {}
  MembTargets = {}
  CrashNodes = {}
  Spares = {}
  MaxDepth = 100
CONSTRAINT Bound
PROPERTY EventuallyOneLeader
PROPERTY AcceptedIsApplied
CHECK_DEADLOCK FALSE

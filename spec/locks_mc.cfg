SPECIFICATION Spec
CONSTANTS
  Clients = {"A", "B"}
  Locks = {"x"}
  U = 4
  MaxNow = 6
  MaxLog = 4
  Emit = FALSE
INVARIANT MutualExclusion
INVARIANT LateAcquireFails
INVARIANT ForeignReleaseNoEffect
INVARIANT ExpiryFrees
CHECK_DEADLOCK FALSE

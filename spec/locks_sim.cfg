SPECIFICATION Spec
CONSTANTS
  Clients = {"A", "B", "C"}
  Locks = {"x", "y"}
  U = 4
  MaxNow = 12
  MaxLog = 12
  Emit = TRUE
INVARIANT MutualExclusion
INVARIANT LateAcquireFails
INVARIANT ForeignReleaseNoEffect
INVARIANT EmitEnd
INVARIANT ExpiryFrees
CHECK_DEADLOCK FALSE

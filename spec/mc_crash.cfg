SPECIFICATION MCSpec
CONSTANTS
  Nodes = {"a", "b", "c"}
  Voters0 = {"a", "b", "c"}
  Observers = {}
  Nil = "Nil"
  BatchBytes = 50
  UseBatch = TRUE
  WaitLeader = TRUE
  QueueSize = 10
  SpecialCids = {}
  Journal = TRUE
  Fork = FALSE
  UserSer = FALSE
  DumpFile = FALSE
  VersionedCids = {}
  QuietCids = {}
  Raisers = {}
  Conform = TRUE
  InitConnected = TRUE
  Membership = FALSE
  CompactMin = 1000000
  SnapChunk = 65536
  Cmds = {"c1"}
  CmdSize = 40
  MaxTerm = 1
  MaxLog = 4
  MaxChan = 2
  MaxFaults = 1
  Electors = {"a"}
  SubmitAt = {"a"}
  Advs0 = {"z", "h", "j"}
  SnapSize = 100
  Compactors = {}
  FaultPairs = {}
  Isolated0 = {}
  MembCids = {}
  MembTargets = {}
  CrashNodes = {"b"}
  Spares = {}
  MaxDepth = 100
CONSTRAINT Bound
INVARIANT ApplyAgreement
INVARIANT StateIsPrefixFold
INVARIANT CallbackAtMostOnce
INVARIANT SuccessMeansCommittedOnce
INVARIANT FailureMeansNeverApplied
INVARIANT AtMostOnceApplied
INVARIANT ElectionSafety
INVARIANT OneVotePerTerm
INVARIANT CommittedStable
INVARIANT LogMatching
INVARIANT NoEscape
INVARIANT NoOlderTerm
PROPERTY P_MonotoneIndices
PROPERTY P_HistAppendOnly
PROPERTY P_CommitIsQuorumBacked
PROPERTY P_LeaderCompleteness
PROPERTY P_TermMonotone
PROPERTY P_ApplyProgress
PROPERTY P_AckedDurable
CHECK_DEADLOCK FALSE

SPECIFICATION MCSpec
CONSTANTS
  Nodes = {"a", "b", "c", "d"}
  Voters0 = {"a", "b", "c"}
  Observers = {}
  Nil = "Nil"
  BatchBytes = 300
  UseBatch = TRUE
  WaitLeader = TRUE
  QueueSize = 10
  SpecialCids = {"m1", "m2"}
  Journal = FALSE
  Fork = FALSE
  UserSer = FALSE
  DumpFile = FALSE
  VersionedCids = {}
  QuietCids = {}
  Raisers = {}
  Conform = TRUE
  InitConnected = TRUE
  Membership = TRUE
  CompactMin = 1000000
  SnapChunk = 65536
  Cmds = {"c1"}
  CmdSize = 40
  MaxTerm = 1
  MaxLog = 5
  MaxChan = 2
  MaxFaults = 0
  Electors = {"a"}
  SubmitAt = {"a"}
  Advs0 = {"h", "j"}
  SnapSize = 100
  Compactors = {}
  FaultPairs = {{"a","b"},{"a","c"},{"b","c"},{"a","d"},{"b","d"},{"c","d"},{"a","e"},{"b","e"},{"c","e"},{"d","e"}}
  Isolated0 = {}
  MembCids = {"m1", "m2"}
  MembTargets = {"c", "d"}
  CrashNodes = {}
  Spares = {"d"}
  MaxDepth = 100
CONSTRAINT Bound
INVARIANT ApplyAgreement
INVARIANT StateIsPrefixFold
INVARIANT CallbackAtMostOnce
INVARIANT SuccessMeansCommittedOnce
INVARIANT FailureMeansNeverApplied
INVARIANT AtMostOnceApplied
INVARIANT ElectionSafety
INVARIANT OneVotePerTerm
INVARIANT CommittedStable
INVARIANT LogMatching
INVARIANT NoEscape
PROPERTY P_MonotoneIndices
PROPERTY P_HistAppendOnly
PROPERTY P_CommitIsQuorumBacked
PROPERTY P_LeaderCompleteness
PROPERTY P_TermMonotone
PROPERTY P_ApplyProgress
CHECK_DEADLOCK FALSE

SPECIFICATION MCSpec
CONSTANTS
  Nodes = {"a", "b", "c", "o1"}
  Voters0 = {"a", "b", "c"}
  Observers = {"o1"}
  Nil = "Nil"
  BatchBytes = 50
  UseBatch = TRUE
  WaitLeader = TRUE
  QueueSize = 10
  SpecialCids = {}
  Journal = FALSE
  Fork = FALSE
  UserSer = FALSE
  DumpFile = FALSE
  VersionedCids = {}
  QuietCids = {}
  Raisers = {}
  Conform = TRUE
  InitConnected = TRUE
  Membership = FALSE
  CompactMin = 1000000
  SnapChunk = 65536
  Cmds = {"c1"}
  CmdSize = 40
  MaxTerm = 1
  MaxLog = 4
  MaxChan = 2
  MaxFaults = 1
  Electors = {"a"}
  SubmitAt = {"o1"}
  Advs0 = {"h", "j"}
  SnapSize = 100
  Compactors = {}
  FaultPairs = {{"a","o1"},{"b","o1"}}
  Isolated0 = {}
  MembCids = {}
  MembTargets = {}
  CrashNodes = {}
  Spares = {}
  MaxDepth = 100
CONSTRAINT Bound
INVARIANT ApplyAgreement
INVARIANT StateIsPrefixFold
INVARIANT CallbackAtMostOnce
INVARIANT SuccessMeansCommittedOnce
INVARIANT FailureMeansNeverApplied
INVARIANT AtMostOnceApplied
INVARIANT ElectionSafety
INVARIANT OneVotePerTerm
INVARIANT CommittedStable
INVARIANT LogMatching
INVARIANT NoEscape
PROPERTY P_MonotoneIndices
PROPERTY P_HistAppendOnly
PROPERTY P_CommitIsQuorumBacked
PROPERTY P_LeaderCompleteness
PROPERTY P_TermMonotone
PROPERTY P_ApplyProgress
CHECK_DEADLOCK FALSE

SPECIFICATION MCSpec
CONSTANTS
  Nodes = {"a", "b", "c"}
  Voters0 = {"a", "b", "c"}
  Observers = {}
  Nil = "Nil"
  BatchBytes = 100
  UseBatch = TRUE
  WaitLeader = TRUE
  QueueSize = 10
  SpecialCids = {}
  Journal = FALSE
  Fork = FALSE
  UserSer = FALSE
  DumpFile = FALSE
  VersionedCids = {}
  QuietCids = {}
  Raisers = {}
  Conform = TRUE
  InitConnected = TRUE
  Membership = FALSE
  CompactMin = 1000000
  SnapChunk = 60
  Cmds = {"c1"}
  CmdSize = 40
  MaxTerm = 1
  MaxLog = 4
  MaxChan = 4
  MaxFaults = 0
  Electors = {"a"}
  SubmitAt = {"a"}
  Advs0 = {"h", "j"}
  SnapSize = 100
  Compactors = {"a"}
  FaultPairs = {{"a","c"}}
  Isolated0 = {"c"}
  MembCids = {}
  MembTargets = {}
  CrashNodes = {}
  Spares = {}
  MaxDepth = 100
CONSTRAINT Bound
INVARIANT ApplyAgreement
INVARIANT StateIsPrefixFold
INVARIANT CallbackAtMostOnce
INVARIANT SuccessMeansCommittedOnce
INVARIANT FailureMeansNeverApplied
INVARIANT AtMostOnceApplied
INVARIANT ElectionSafety
INVARIANT OneVotePerTerm
INVARIANT CommittedStable
INVARIANT LogMatching
INVARIANT NoEscape
INVARIANT SnapshotAtPosition
INVARIANT TransferIntegrity
INVARIANT HeldSnapshotConsistent
PROPERTY P_MonotoneIndices
PROPERTY P_HistAppendOnly
PROPERTY P_CommitIsQuorumBacked
PROPERTY P_LeaderCompleteness
PROPERTY P_TermMonotone
PROPERTY P_ApplyProgress
INVARIANT CompactedPrefixCovered
CHECK_DEADLOCK FALSE

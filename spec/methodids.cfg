SPECIFICATION Spec
CONSTANTS
  Names = {1, 2}
  Consumers = {0, 1, 2}
  Versions = {0, 1, 2}
  MaxOld = 3
  MaxAdd = 2
INVARIANT IdsStable
INVARIANT IdsDense
CHECK_DEADLOCK FALSE

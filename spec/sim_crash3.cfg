SPECIFICATION SimSpec
CONSTANTS
  Nodes = {"a", "b", "c"}
  Voters0 = {"a", "b", "c"}
  Observers = {}
  Nil = "Nil"
  BatchBytes = 50
  UseBatch = TRUE
  WaitLeader = TRUE
  QueueSize = 10
  SpecialCids = {}
  Journal = TRUE
  Fork = TRUE
  UserSer = FALSE
  DumpFile = TRUE
  VersionedCids = {}
  QuietCids = {}
  Raisers = {}
  Conform = TRUE
  InitConnected = TRUE
  Membership = FALSE
  CompactMin = 1000000
  SnapChunk = 60
  Cmds = {"c1", "c2", "c3", "c4", "c5"}
  CmdSize = 40
  MaxTerm = 6
  MaxLog = 100
  MaxChan = 100
  MaxFaults = 5
  Electors = {"a", "b", "c"}
  SubmitAt = {"a", "b", "c"}
  Advs0 = {"z", "h", "j"}
  SnapSize = 100
  Compactors = {"a", "b", "c"}
  FaultPairs = {}
  Isolated0 = {}
  MembCids = {}
  MembTargets = {}
  CrashNodes = {"a", "b", "c"}
  Spares = {}
  MaxDepth = 1000
  SimDepth = 60
INVARIANT EmitAtEnd
INVARIANT StateOK
PROPERTY StepOK
CHECK_DEADLOCK FALSE

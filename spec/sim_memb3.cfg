SPECIFICATION SimSpec
CONSTANTS
  Nodes = {"a", "b", "c", "d"}
  Voters0 = {"a", "b", "c"}
  Observers = {}
  Nil = "Nil"
  BatchBytes = 300
  UseBatch = TRUE
  WaitLeader = TRUE
  QueueSize = 10
  SpecialCids = {"m1", "m2"}
  Journal = FALSE
  Fork = FALSE
  UserSer = FALSE
  DumpFile = FALSE
  VersionedCids = {}
  QuietCids = {}
  Raisers = {}
  Conform = TRUE
  InitConnected = TRUE
  Membership = TRUE
  CompactMin = 1000000
  SnapChunk = 65536
  Cmds = {"c1", "c2", "c3"}
  CmdSize = 40
  MaxTerm = 6
  MaxLog = 100
  MaxChan = 100
  MaxFaults = 3
  Electors = {"a", "b", "c"}
  SubmitAt = {"a", "b", "c"}
  Advs0 = {"z", "h", "j"}
  SnapSize = 100
  Compactors = {}
  FaultPairs = {{"a","b"},{"a","c"},{"b","c"},{"a","d"},{"b","d"},{"c","d"},{"a","e"},{"b","e"},{"c","e"},{"d","e"}}
  Isolated0 = {}
  MembCids = {"m1", "m2", "m3", "m4"}
  MembTargets = {"a", "b", "c", "d"}
  CrashNodes = {}
  Spares = {"d"}
  MaxDepth = 1000
  SimDepth = 60
INVARIANT EmitAtEnd
INVARIANT StateOK
PROPERTY StepOK
CHECK_DEADLOCK FALSE

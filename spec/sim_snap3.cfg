SPECIFICATION SimSpec
CONSTANTS
  Nodes = {"a", "b", "c"}
  Voters0 = {"a", "b", "c"}
  Observers = {}
  Nil = "Nil"
  BatchBytes = 50
  UseBatch = TRUE
  WaitLeader = TRUE
  QueueSize = 10
  SpecialCids = {}
  Journal = FALSE
  Fork = FALSE
  UserSer = FALSE
  DumpFile = FALSE
  VersionedCids = {}
  QuietCids = {}
  Raisers = {}
  Conform = TRUE
  InitConnected = TRUE
  Membership = FALSE
  CompactMin = 1000000
  SnapChunk = 60
  Cmds = {"c1", "c2", "c3", "c4", "c5", "c6"}
  CmdSize = 40
  MaxTerm = 6
  MaxLog = 100
  MaxChan = 100
  MaxFaults = 4
  Electors = {"a", "b", "c"}
  SubmitAt = {"a", "b", "c"}
  Advs0 = {"z", "h", "m", "j"}
  SnapSize = 100
  Compactors = {"a", "b", "c"}
  FaultPairs = {{"a","b"},{"a","c"},{"b","c"},{"a","d"},{"b","d"},{"c","d"},{"a","e"},{"b","e"},{"c","e"},{"d","e"}}
  Isolated0 = {}
  MembCids = {}
  MembTargets = {}
  CrashNodes = {}
  Spares = {}
  MaxDepth = 1000
  SimDepth = 60
INVARIANT EmitAtEnd
INVARIANT StateOK
PROPERTY StepOK
CHECK_DEADLOCK FALSE

SPECIFICATION Spec
CONSTANTS
  Callers = {"t1", "t2"}
  Calls = 2
  QMax = 0
INVARIANT AppliedOnce
INVARIANT CallbackOnce
INVARIANT OwnResult
INVARIANT FailedNotApplied
CHECK_DEADLOCK FALSE

SPECIFICATION Spec
CONSTANTS
  Timeout = 3
  Retry = 2
  MaxNow = 9
  MaxConn = 3
INVARIANT OneWorking
INVARIANT Truthful
INVARIANT NotificationsMatch
CHECK_DEADLOCK FALSE

"""developer loop: random traces of one cluster cfg -> TLC trace validation -> print drift / violations
usage: devrun.py '<cfg json>' '<weights json>' nseeds steps [maxcmd] [extra json]"""
import sys, json, shutil
sys.path.insert(0, '/verif')
from harness import sched, tlc, tracetool, engine_core

cfg = json.loads(sys.argv[1])
w = dict(engine_core.W_BASE); w.update(json.loads(sys.argv[2]))
nseeds, steps = int(sys.argv[3]), int(sys.argv[4])
maxcmd = int(sys.argv[5]) if len(sys.argv) > 5 else 30
extra = json.loads(sys.argv[6]) if len(sys.argv) > 6 else {}
trs = [sched.run_random(cfg, s, steps, weights=w, maxcmd=maxcmd, extra=extra) for s in range(nseeds)]
wd = tlc.scratch()
jobs = [('b%d' % i, cfg, trs[i::8]) for i in range(8) if trs[i::8]]
res = tlc.validate_parallel(jobs, wd)
nd = nv = 0
import collections
dk = collections.Counter(); vk = collections.Counter()
first = {}
for lab, r in sorted(res.items()):
    if not r['ok']:
        print(lab, 'TLC FAILED', r['out'][-1500:]); continue
    b = int(lab[1:])
    for d in r['drift']:
        key = (d.get('action', '').split(',')[0], tuple(d.get('names', [])), d.get('rel'))
        dk[key] += 1; first.setdefault(('D',) + key, (b + 8 * (d['tid'] - 1), d['l']))
    for v in r['viol']:
        key = tuple(v.get('names', []))
        vk[key] += 1; first.setdefault(('V',) + key, (b + 8 * (v['tid'] - 1), v['l'], v.get('action')))
print('traces', len(trs), 'steps', sum(len(t) - 1 for t in trs), 'wall', round(max(r['wall'] for r in res.values()), 1))
print('DRIFT kinds:'); [print('  ', k, n, 'first at seed/step', first[('D',) + k]) for k, n in dk.most_common(12)]
print('VIOL kinds:'); [print('  ', k, n, 'first at', first[('V',) + k]) for k, n in vk.most_common(12)]
cov = collections.Counter()
for t in trs: tracetool.coverage(t, cov)
print('COVERAGE:', ', '.join('%s=%d' % kv for kv in sorted(cov.items())))
shutil.rmtree(wd, ignore_errors=True)

#!/bin/sh
# Runs, for every seeded change, the quick check of the property it was written against (plus the checks named in
# seeded/extra_checks.txt) in a scratch copy of /repo with the change applied. Writes seeded/<id>/check.txt.
cd "$(dirname "$0")/.."
for D in seeded/*/; do
  S=$(basename $D)
  [ -f $D/patch.diff ] || continue
  P=$(echo $S | cut -d_ -f1)
  EXTRA=$(grep "^$S " seeded/extra_checks.txt 2>/dev/null | cut -d' ' -f2-)
  if [ -n "$ONLY" ] && ! echo " $ONLY " | grep -q " $S "; then continue; fi
  tools/mutant_eval.sh $S $P $EXTRA > $D/check.txt 2>&1
  grep -E "^===|finished rc=" $D/check.txt | tr '\n' ' '; echo
done

#!/bin/sh
# usage: import_seed.sh <property>   -- copy /tmp/mut/<P>/seed{1,2} into /verif/seeded/<P>_s{1,2}
P=$1
for i in 1 2; do
  src=/tmp/mut/$P/seed$i
  [ -d $src ] || continue
  dst=/verif/seeded/${P}_s$i
  mkdir -p $dst
  cp $src/patch.diff $src/demo.py $src/notes.md $dst/ 2>/dev/null
done
ls /verif/seeded | grep "^$P"

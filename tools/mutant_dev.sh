#!/bin/sh
# usage: mutant_dev.sh <seeded-id> <devrun args...>   -- devrun against a scratch copy of /repo with the seeded change
S=$1; shift
W=/tmp/mutdev_$S
git -C /repo worktree remove --force $W 2>/dev/null
git -C /repo worktree add -q --detach $W HEAD && git -C $W apply /verif/seeded/$S/patch.diff || { echo "cannot prepare $S"; exit 3; }
VERIF_REPO=$W PYTHONHASHSEED=0 /venv/bin/python /verif/tools/devrun.py "$@" 2>&1 | grep -A12 "VIOL kinds" | head -10
git -C /repo worktree remove --force $W

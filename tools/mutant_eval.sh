#!/bin/sh
# usage: mutant_eval.sh <seeded-dir-name> <property> [more properties]   -- run checks against a scratch copy of /repo with the seeded change
# (the harness imports pysyncobj from $VERIF_REPO; /repo itself is not touched)
S=$1; shift
HERE=$(cd "$(dirname "$0")/.." && pwd)
W=/tmp/mutrepo_$S
git -C /repo worktree remove --force $W 2>/dev/null
git -C /repo worktree add -q --detach $W HEAD || exit 3
if ! git -C $W apply /verif/seeded/$S/patch.diff; then echo "PATCH-DOES-NOT-APPLY $S"; git -C /repo worktree remove --force $W; exit 4; fi
for P in "$@"; do
  echo "=== $S / $P"
  ( cd $HERE && VERIF_REPO=$W VERIF_EVIDENCE_DIR=/tmp/mut_evidence VERIF_REPLAY_DIR=/tmp/mut_replays ./check $P --tier quick 2>&1 | grep -v "^  \[spec\]" | tail -12 )
done
git -C /repo worktree remove --force $W

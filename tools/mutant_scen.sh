#!/bin/sh
# usage: mutant_scen.sh <seeded-id> <scen1,scen2> <nseeds>  -- scenario sweep against a scratch copy of /repo with the seeded change
S=$1; shift
W=/tmp/mutscen_$S
git -C /repo worktree remove --force $W 2>/dev/null
git -C /repo worktree add -q --detach $W HEAD && git -C $W apply /verif/seeded/$S/patch.diff || { echo "cannot prepare $S"; exit 3; }
VERIF_REPO=$W PYTHONHASHSEED=0 /venv/bin/python /verif/tools/scen_run.py "$@" 2>&1 | cut -c1-700
git -C /repo worktree remove --force $W

#!/bin/sh
# run every quick check once, print timing and verdict, validate the evidence files
cd "$(dirname "$0")/.."
for i in 01 02 03 04 05 06 07 08 09 10 11 12 13 14 15 16 17 18 19 20; do
  P=C$i
  S=$(date +%s)
  ./check $P --tier quick > /tmp/verif_quick_$P.log 2>&1
  RC=$?
  E=$(date +%s)
  echo "$P rc=$RC wall=$((E-S))s $(grep -c '^VIOLATION' /tmp/verif_quick_$P.log) violations $(grep -c '^KNOWN-FINDING' /tmp/verif_quick_$P.log) known $(grep -c '^MODEL-DRIFT' /tmp/verif_quick_$P.log) drift $(grep -c 'MACHINERY' /tmp/verif_quick_$P.log) machinery"
done
python3-vt - <<'PY'
import json, jsonschema, glob
sch = json.load(open('/root/.vp/EVIDENCE.schema.json'))
for f in sorted(glob.glob('evidence/*.json')):
    try:
        jsonschema.validate(json.load(open(f)), sch)
        print('evidence ok', f)
    except Exception as e:
        print('EVIDENCE INVALID', f, str(e)[:200])
PY

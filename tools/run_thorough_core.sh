#!/bin/sh
# thorough tier of core properties, one after the other (used to make sure the registered commands work and how long they take)
cd "$(dirname "$0")/.."
for P in ${PROPS:-C01 C06 C09 C10 C03}; do
  S=$(date +%s)
  ./check $P --tier thorough > /tmp/verif_thorough_$P.log 2>&1
  RC=$?
  echo "$P rc=$RC wall=$(( $(date +%s) - S ))s $(grep -c '^VIOLATION' /tmp/verif_thorough_$P.log) violations $(grep -c '^MACHINERY' /tmp/verif_thorough_$P.log) machinery"
  grep -v "^MODEL-DRIFT" /tmp/verif_thorough_$P.log | tail -6 | cut -c1-300
done

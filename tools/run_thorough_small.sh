#!/bin/sh
# thorough tier of the component engines, one after the other (used once to make sure the registered commands work)
cd "$(dirname "$0")/.."
for P in C08 C11 C13 C14 C15 C16 C19 C20; do
  S=$(date +%s)
  ./check $P --tier thorough > /tmp/verif_thorough_$P.log 2>&1
  RC=$?
  echo "$P rc=$RC wall=$(( $(date +%s) - S ))s $(grep -c '^VIOLATION' /tmp/verif_thorough_$P.log) violations $(grep -c '^MACHINERY' /tmp/verif_thorough_$P.log) machinery"
  tail -4 /tmp/verif_thorough_$P.log | cut -c1-300
done

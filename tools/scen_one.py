"""usage: scen_one.py scenario seed -- validate one random run of a named scenario; print drift/violation steps"""
import sys, shutil
sys.path.insert(0, '/verif')
from harness import tlc, engine_core as E
nm, seed = sys.argv[1], int(sys.argv[2])
_, _, tr = E._gen_trace((nm, seed))
wd = tlc.scratch()
r = tlc.validate_core_traces([tr], E.SCENARIOS[nm][0], wd)
if not r['ok']:
    print(r['out'][-3000:])
for d in r['drift'][:10]:
    print('DRIFT', d)
seen = set()
for v in r['viol']:
    k = tuple(v.get('names', []))
    if k not in seen:
        seen.add(k); print('VIOL', v)
shutil.rmtree(wd, ignore_errors=True)

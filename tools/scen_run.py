"""usage: scen_run.py scen1,scen2 nseeds [seed0] -- random traces of named scenarios -> validation, print viol/drift kinds"""
import sys, json, shutil, collections
sys.path.insert(0, '/verif')
from harness import sched, tlc, tracetool, engine_core as E
names = sys.argv[1].split(','); n = int(sys.argv[2]); s0 = int(sys.argv[3]) if len(sys.argv) > 3 else 0
import multiprocessing
jobs = [(nm, s0 + k) for nm in names for k in range(n)]
with multiprocessing.Pool(14) as pool:
    res = pool.map(E._gen_trace, jobs)
wd = tlc.scratch()
by = collections.defaultdict(list)
for nm, seed, tr in res: by[nm].append((seed, tr))
vjobs = []
for nm, lst in by.items():
    for i in range(0, len(lst), 4):
        vjobs.append(('%s_%d' % (nm, i), E.SCENARIOS[nm][0], [t for _, t in lst[i:i+4]]))
out = tlc.validate_parallel(vjobs, wd)
for lab, r in sorted(out.items()):
    nm, i = lab.rsplit('_', 1); i = int(i)
    if not r['ok']:
        print(lab, 'TLC FAILED', r['out'][-800:]); continue
    dk = collections.Counter(); vk = collections.Counter(); first = {}
    for d in r['drift']:
        key = (d.get('action', '').split(',')[0], tuple(d.get('names', [])), d.get('rel')); dk[key] += 1
        first.setdefault(key, (by[nm][i + d['tid'] - 1][0], d['l']))
    for v in r['viol']:
        key = tuple(v.get('names', [])); vk[key] += 1; first.setdefault(key, (by[nm][i + v['tid'] - 1][0], v['l'], v.get('action')))
    if dk or vk:
        print(lab, 'DRIFT', [(k, c, first[k]) for k, c in dk.items()], 'VIOL', [(k, c, first[k]) for k, c in vk.items()])
print('done', len(jobs), 'traces')
shutil.rmtree(wd, ignore_errors=True)

"""usage: scen_show.py scenario seed lo hi -- print states lo..hi of one random run of a named scenario"""
import sys
sys.path.insert(0, '/verif')
from harness import tracetool, engine_core as E
nm, seed, lo, hi = sys.argv[1], int(sys.argv[2]), int(sys.argv[3]), int(sys.argv[4])
_, _, tr = E._gen_trace((nm, seed))
print('len', len(tr))
if '--acts' in sys.argv:
    for k in range(lo - 1, min(hi, len(tr))):
        print(k + 1, tr[k]['a'])
else:
    tracetool.show(tr, lo, hi)

"""regenerate seeded/<id>/meta.json and the summary table for DESIGN.md 0.6 from seeded/*/verify.txt (my own confirmation
of demo + repository suite) and seeded/*/check.txt (the quick checks run against the change by tools/eval_all_seeded.sh)"""
import os, json, glob, re
root = os.path.join(os.path.dirname(os.path.abspath(__file__)), '..', 'seeded')
rows = []
for d in sorted(glob.glob(os.path.join(root, '*/'))):
    sid = os.path.basename(d.rstrip('/'))
    if not os.path.isfile(os.path.join(d, 'patch.diff')):
        continue
    prop = sid.split('_')[0]
    ver = {}
    vp = os.path.join(d, 'verify.txt')
    if os.path.isfile(vp):
        for ln in open(vp):
            if '=' in ln:
                k, v = ln.strip().split('=', 1)
                ver[k] = v
    notes = ''
    np_ = os.path.join(d, 'notes.md')
    if os.path.isfile(np_):
        notes = open(np_).read()
    first = next((l.strip('# ').strip() for l in notes.split('\n') if l.strip()), '')
    first = re.sub(r'^(C\d+\s*[/-]?\s*)?[Ss]eed\s*\d+\s*[-:–—]*\s*', '', first)
    needs = ''
    m = re.search(r'(?is)(what (is|it) need[^\n]*|needed to manifest[^\n]*|what exactly is needed[^\n]*)\n?(.*?)(\n\s*\n|\Z)', notes)
    if m:
        needs = re.sub(r'\s+', ' ', (m.group(1) + ' ' + m.group(3))).strip()[:600]
    checks = {}
    cp = os.path.join(d, 'check.txt')
    if os.path.isfile(cp):
        cur = None
        for ln in open(cp):
            m = re.match(r'^=== (\S+) / (\S+)', ln)
            if m:
                cur = m.group(2)
                checks[cur] = {'rc': None, 'formulas': [], 'drift': 0}
                continue
            if cur is None:
                continue
            m = re.search(r'finished rc=(\d+) in (\d+)s', ln)
            if m:
                checks[cur]['rc'] = int(m.group(1))
                checks[cur]['wall_s'] = int(m.group(2))
            for f in re.findall(r"'(C\d\d\.[A-Za-z#0-9]+)'", ln):
                if 'formula' in ln and f not in checks[cur]['formulas']:
                    checks[cur]['formulas'].append(f)
            if ln.startswith('MODEL-DRIFT'):
                checks[cur]['drift'] += 1
            m = re.search(r'^\s+(\w+\.\w+): \{', ln)
            if m and m.group(1) not in checks[cur]['formulas']:
                checks[cur]['formulas'].append(m.group(1))
    caught = [p for p, c in checks.items() if c['rc'] == 1]
    if caught:
        verdict = 'caught by ' + '; '.join('./check %s (%s)' % (p, ', '.join(checks[p]['formulas'][:3]) or 'violation') for p in caught)
        missed = [p for p, c in checks.items() if c['rc'] == 0]
        if missed:
            verdict += '; not by ./check ' + ', '.join(missed)
    elif checks:
        bits = []
        for p, c in checks.items():
            bits.append('./check %s rc=%s%s' % (p, c['rc'], ' (model drift only)' if c['drift'] else ''))
        verdict = 'NOT caught: ' + '; '.join(bits)
    else:
        verdict = 'not run yet'
    meta = {'id': sid, 'breaks_property': prop, 'summary': first[:240],
            'needs_to_manifest': needs or 'see notes.md',
            'confirmed_by_me': {'demo_passes_on_clean_tree': ver.get('clean_rc') == '0', 'demo_fails_with_patch': ver.get('patched_rc') not in (None, '0'),
                                'repo_suite_passes_with_patch': ver.get('suite_rc') == '0', 'repo_head': ver.get('head'),
                                'how': 'tools/verify_seeded.sh: scratch worktree of /repo HEAD; demo.py without and with patch.diff; repository suite with patch.diff'},
            'checks_run': checks, 'verdict': verdict}
    json.dump(meta, open(os.path.join(d, 'meta.json'), 'w'), indent=1)
    conf = meta['confirmed_by_me']
    ok = conf['demo_passes_on_clean_tree'] and conf['demo_fails_with_patch'] and conf['repo_suite_passes_with_patch']
    rows.append('| %s | %s | %s | %s |' % (sid, first[:100].replace('|', '/'), 'yes' if ok else ('pending' if not ver else 'partly: ' + json.dumps(ver)), verdict.replace('|', '/')))
print('| seeded change | what it does | demo + suite confirmed by me | quick checks |')
print('|---|---|---|---|')
print('\n'.join(rows))

"""regenerate seeded/<id>/meta.json skeletons and the summary table for DESIGN.md 0.6 from seeded/*/verify.txt and seeded/results.json"""
import os, json, glob, re
root = os.path.join(os.path.dirname(os.path.abspath(__file__)), '..', 'seeded')
results = {}
rp = os.path.join(root, 'results.json')
if os.path.isfile(rp):
    results = json.load(open(rp))
rows = []
for d in sorted(glob.glob(os.path.join(root, '*/'))):
    sid = os.path.basename(d.rstrip('/'))
    prop = sid.split('_')[0]
    ver = {}
    vp = os.path.join(d, 'verify.txt')
    if os.path.isfile(vp):
        for ln in open(vp):
            if '=' in ln:
                k, v = ln.strip().split('=', 1)
                ver[k] = v
    notes = ''
    np_ = os.path.join(d, 'notes.md')
    if os.path.isfile(np_):
        notes = open(np_).read()
    first = next((l.strip('# ').strip() for l in notes.split('\n') if l.strip()), '')
    meta = {'id': sid, 'breaks_property': prop, 'summary': first[:200],
            'needs_to_manifest': 'see notes.md',
            'confirmed_by_me': {'demo_passes_on_clean_tree': ver.get('clean_rc') == '0', 'demo_fails_with_patch': ver.get('patched_rc') not in (None, '0'),
                                'repo_suite_passes_with_patch': ver.get('suite_rc') == '0', 'repo_head': ver.get('head')},
            'checks_run': results.get(sid, {})}
    json.dump(meta, open(os.path.join(d, 'meta.json'), 'w'), indent=1)
    r = results.get(sid, {})
    rows.append('| %s | %s | %s | %s |' % (sid, first[:90].replace('|', '/'), 'yes' if meta['confirmed_by_me']['repo_suite_passes_with_patch'] and meta['confirmed_by_me']['demo_fails_with_patch'] else 'partly',
                                       r.get('verdict', 'not run yet')))
print('| seeded change | what it does | confirmed | caught by |')
print('|---|---|---|---|')
print('\n'.join(rows))

"""usage: showtrace.py '<cfg json>' '<weights json>' seed steps lo hi [maxcmd] [extra]  -- print states lo..hi of a random run"""
import sys, json
sys.path.insert(0, '/verif')
from harness import sched, tracetool, engine_core
cfg = json.loads(sys.argv[1]); w = dict(engine_core.W_BASE); w.update(json.loads(sys.argv[2]))
seed, steps, lo, hi = map(int, sys.argv[3:7])
maxcmd = int(sys.argv[7]) if len(sys.argv) > 7 else 30
extra = json.loads(sys.argv[8]) if len(sys.argv) > 8 else {}
tr = sched.run_random(cfg, seed, steps, weights=w, maxcmd=maxcmd, extra=extra)
tracetool.show(tr, lo, hi)
for k in range(lo - 1, hi):
    r = tr[k]
    print(k + 1, r['a'], {x: r[x] for x in r if x not in ('a', 'upd', 'ch', 'full')})
    if 'upd' in r:
        for n, s in r['upd'].items():
            print('   upd', n, {f: s[f] for f in ('force', 'lse', 'serPid', 'serId', 'snap', 'trans', 'incoming', 'needLoad', 'ready', 'hbDue', 'elDue') if f in s})

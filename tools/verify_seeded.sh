#!/bin/sh
# For every /verif/seeded/<id>: confirm in a scratch worktree of /repo HEAD that the demo passes without and fails with
# the patch, and that the repository's suite still passes with the patch. Writes /verif/seeded/<id>/verify.txt
for D in /verif/seeded/*/; do
  S=$(basename $D)
  [ -f $D/verify.txt ] && grep -q "suite_rc=" $D/verify.txt && continue
  W=/tmp/seedverify_$S
  git -C /repo worktree remove --force $W 2>/dev/null
  git -C /repo worktree add -q --detach $W HEAD || continue
  cp $D/demo.py $W/demo_seed.py
  ( cd $W && timeout 120 /venv/bin/python demo_seed.py > /tmp/seedverify_$S.clean 2>&1; echo "clean_rc=$?" > $D/verify.txt )
  if ( cd $W && git apply $D/patch.diff ); then
    ( cd $W && timeout 120 /venv/bin/python demo_seed.py > /tmp/seedverify_$S.patched 2>&1; echo "patched_rc=$?" >> $D/verify.txt )
    ( cd $W && rm -f demo_seed.py && flock /tmp/mut/test.lock /venv/bin/python -m pytest -q -p no:cacheprovider --timeout=900 \
        --deselect test_syncobj.py::test_encryptionCorrectPassword --deselect test_syncobj.py::test_encryptionWrongPassword \
        --deselect test_syncobj.py::test_readOnlyNodes --deselect test_syncobj.py::test_syncobjAdminStatus --deselect test_syncobj.py::test_largeCommands \
        > /tmp/seedverify_$S.suite 2>&1; echo "suite_rc=$?" >> $D/verify.txt; tail -1 /tmp/seedverify_$S.suite >> $D/verify.txt )
  else
    echo "patch_applies=no" >> $D/verify.txt
  fi
  echo "head=$(git -C /repo log --format=%h -1)" >> $D/verify.txt
  git -C /repo worktree remove --force $W
  rm -f /tmp/seedverify_$S.*
done
